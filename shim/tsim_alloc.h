/* Force-included (-include) into every C kernel that cffi compiles inside a
 * simulation worker: the kernel's allocator calls go to the simulated heap. */
#ifndef TSIM_ALLOC_H
#define TSIM_ALLOC_H
#include <stddef.h>
#include <stdlib.h>
void *tsim_malloc(size_t);
void *tsim_calloc(size_t, size_t);
void *tsim_realloc(void *, size_t);
void tsim_free(void *);
#define malloc tsim_malloc
#define calloc tsim_calloc
#define realloc tsim_realloc
#define free tsim_free
#endif
