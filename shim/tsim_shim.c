/* tsim shim: preloaded into every simulation worker.
 *
 * 1. Interposes free(): a pointer inside the simulated-heap arena is appended
 *    to a lock-free log and NOT forwarded (the Python heap model drains the
 *    log at every simulator step); everything else goes to the real free().
 *    This is the only libc symbol interposed, so CPython, llvmlite, gcc
 *    subprocesses etc. run on the real allocator.
 * 2. Exports tsim_malloc/tsim_calloc/tsim_realloc trampolines into the Python
 *    heap model; kernels compiled from C get them through -include
 *    tsim_alloc.h, JIT kernels through llvmlite.binding.add_symbol.
 */
#define _GNU_SOURCE
#include <dlfcn.h>
#include <stdatomic.h>
#include <stddef.h>
#include <stdint.h>
#include <string.h>

static void (*real_free)(void *) = 0;
static volatile uintptr_t arena_lo = 0, arena_hi = 0;

#define LOGN (1u << 16)
static uintptr_t free_log[LOGN];
static atomic_ulong free_n = 0;

void tsim_set_arena(uintptr_t lo, uintptr_t hi) { arena_lo = lo; arena_hi = hi; }
unsigned long tsim_free_count(void) { return atomic_load(&free_n); }
uintptr_t tsim_free_at(unsigned long i) { return free_log[i % LOGN]; }
int tsim_present(void) { return 1; }

typedef void *(*malloc_fn)(size_t);
typedef void *(*calloc_fn)(size_t, size_t);
typedef void *(*realloc_fn)(void *, size_t);
static malloc_fn py_malloc = 0;
static calloc_fn py_calloc = 0;
static realloc_fn py_realloc = 0;

void tsim_set_alloc(malloc_fn m, calloc_fn c, realloc_fn r) {
  py_malloc = m; py_calloc = c; py_realloc = r;
}

void free(void *p) {
  uintptr_t a = (uintptr_t)p;
  if (a >= arena_lo && a < arena_hi) {
    unsigned long i = atomic_fetch_add(&free_n, 1);
    free_log[i % LOGN] = a;
    return;
  }
  if (!real_free) real_free = (void (*)(void *))dlsym(RTLD_NEXT, "free");
  real_free(p);
}

static void *(*real_malloc)(size_t) = 0;
static void *(*real_calloc)(size_t, size_t) = 0;
static void *(*real_realloc)(void *, size_t) = 0;

void *tsim_malloc(size_t n) {
  if (py_malloc) return py_malloc(n);
  if (!real_malloc) real_malloc = (void *(*)(size_t))dlsym(RTLD_DEFAULT, "malloc");
  return real_malloc(n);
}
void *tsim_calloc(size_t a, size_t b) {
  if (py_calloc) return py_calloc(a, b);
  if (!real_calloc) real_calloc = (void *(*)(size_t, size_t))dlsym(RTLD_DEFAULT, "calloc");
  return real_calloc(a, b);
}
void *tsim_realloc(void *p, size_t n) {
  if (py_realloc) return py_realloc(p, n);
  if (!real_realloc) real_realloc = (void *(*)(void *, size_t))dlsym(RTLD_DEFAULT, "realloc");
  return real_realloc(p, n);
}
void tsim_free(void *p) { free(p); }
