"""Simulated heap: the allocator seam of the simulator.

Every malloc/calloc/realloc a generated kernel performs (JIT or C) and every
free() the process issues on an arena address ends up here.  The heap is a
bump allocator inside one big NORESERVE mapping, so within a run no address is
ever reused (quarantine) and every block is known exactly: requested size,
state, who allocated it.  All *decisions* the heap takes (garbage byte, red-zone
byte, realloc policy, zero-size policy, red-zone width) are knobs of the plan.

Nothing here draws random numbers and nothing here logs addresses: the trace
speaks of block ids and sizes only, so it is identical across processes.
"""

from __future__ import annotations

import ctypes
import mmap
import os
import threading

ARENA_SIZE = 1 << 32  # virtual only
BIG = 1 << 16  # blocks larger than this are only filled / verified at both ends
EDGE = 4096
POISON = 0xDD

_libc = ctypes.CDLL(None, use_errno=True)
_libc.madvise.argtypes = [ctypes.c_void_p, ctypes.c_size_t, ctypes.c_int]
_libc.madvise.restype = ctypes.c_int
_libc.mprotect.argtypes = [ctypes.c_void_p, ctypes.c_size_t, ctypes.c_int]
_libc.mprotect.restype = ctypes.c_int
MADV_DONTNEED = 4
PROT_NONE, PROT_RW = 0, 3
PAGE = 4096
GUARD_MODES = ("none", "end", "start")

MALLOC_T = ctypes.CFUNCTYPE(ctypes.c_void_p, ctypes.c_size_t)
CALLOC_T = ctypes.CFUNCTYPE(ctypes.c_void_p, ctypes.c_size_t, ctypes.c_size_t)
REALLOC_T = ctypes.CFUNCTYPE(ctypes.c_void_p, ctypes.c_void_p, ctypes.c_size_t)

REALLOC_POLICIES = ("move", "shrink_in_place", "size_class")
ZERO_POLICIES = ("unique", "null")


MAX_BLOCK = 1 << 28  # no kernel on the tiny inputs of a run has a reason to ask for more
MAX_RUN_BYTES = 1 << 30


class AllocationRefused(Exception):
    pass


class Block:
    __slots__ = ("id", "addr", "size", "cap", "state", "call", "thread", "owner", "kind",
                 "lead", "tail", "region", "prot")

    def __init__(self, id, addr, size, cap, call, thread, kind, lead=0, tail=0, region=None):
        self.id = id
        self.addr = addr
        self.size = size  # requested size
        self.cap = cap  # bytes physically available before the trailing red zone starts
        self.state = "live"  # live | moved | freed
        self.call = call  # id of the kernel call (or 'input'/'harness') that allocated it
        self.thread = thread
        self.owner = None
        self.kind = kind  # malloc | calloc | realloc | input
        self.lead = lead  # red-zone bytes in front of the block
        self.tail = tail  # red-zone bytes behind the block's capacity
        self.region = region  # guard mode: (start, end) of the pages that belong to this block alone
        self.prot = False  # guard mode: the block's pages were made inaccessible on release

    def __repr__(self):
        return f"<block {self.id} size={self.size} {self.state} call={self.call}>"


def _size_class(n: int) -> int:
    """glibc-like usable size for a request of n bytes."""
    return max(24, ((n + 8 + 15) & ~15) - 8)


class Heap:
    def __init__(self):
        flags = mmap.MAP_PRIVATE | mmap.MAP_ANONYMOUS | getattr(mmap, "MAP_NORESERVE", 0)
        self._map = mmap.mmap(-1, ARENA_SIZE, flags=flags)
        self.base = ctypes.addressof(ctypes.c_char.from_buffer(self._map))
        self.end = self.base + ARENA_SIZE
        self.shim = None
        self.bump = self.base + 4096
        self.region_start = self.bump
        self.high = self.bump  # highest address that may carry a page protection
        self.blocks: dict[int, Block] = {}
        self.by_id: dict[int, Block] = {}
        self.seq = 0
        self.drained = 0
        self.errors: list[tuple] = []
        self.trace: list[tuple] = []
        self.trace_on = True
        self.current_call = "harness"
        self.hook = None  # callable(label) -> None : scheduler yield point
        self.on_free = None  # callable(block) -> None
        self.stats = {
            "malloc": 0,
            "calloc": 0,
            "realloc": 0,
            "realloc_moved": 0,
            "realloc_in_place": 0,
            "realloc_grow": 0,
            "realloc_null": 0,
            "zero_size": 0,
            "free": 0,
            "free_null": 0,
        }
        self.configure()
        self._cb_malloc = MALLOC_T(self._malloc_cb)
        self._cb_calloc = CALLOC_T(self._calloc_cb)
        self._cb_realloc = REALLOC_T(self._realloc_cb)

    # ------------------------------------------------------------------ knobs
    def configure(self, garbage=0xA5, redzone=0xCA, rz=64, realloc="move", zero="unique",
                  poison=POISON, guard="none"):
        """guard: "end" places every block so that its last byte is the last byte of a page that is
        followed by an inaccessible page, "start" so that its first byte follows one (electric-fence
        placement): a read or write one element past that side of ANY array - input or kernel
        allocated, whether or not the value read influences anything - faults at once.  Released and
        moved blocks become inaccessible as well, so any use of a stale pointer faults too."""
        assert garbage != redzone and 16 <= rz <= 4096 and rz % 16 == 0
        assert realloc in REALLOC_POLICIES and zero in ZERO_POLICIES and guard in GUARD_MODES
        assert not (guard != "none" and realloc == "size_class")
        self.guard = guard
        self.garbage = garbage
        self.redzone = redzone
        self.rz = rz
        self.realloc_policy = realloc
        self.zero_policy = zero
        self.poison = poison

    # ---------------------------------------------------------------- install
    def attach_shim(self, shim):
        """shim: ctypes handle of the process (LD_PRELOADed libtsim.so)."""
        shim.tsim_set_arena.argtypes = [ctypes.c_size_t, ctypes.c_size_t]
        shim.tsim_free_count.restype = ctypes.c_ulong
        shim.tsim_free_at.restype = ctypes.c_size_t
        shim.tsim_free_at.argtypes = [ctypes.c_ulong]
        shim.tsim_set_alloc.argtypes = [ctypes.c_void_p, ctypes.c_void_p, ctypes.c_void_p]
        shim.tsim_set_arena(self.base, self.end)
        shim.tsim_set_alloc(
            ctypes.cast(self._cb_malloc, ctypes.c_void_p),
            ctypes.cast(self._cb_calloc, ctypes.c_void_p),
            ctypes.cast(self._cb_realloc, ctypes.c_void_p),
        )
        self.shim = shim
        self.drained = shim.tsim_free_count()

    def symbol_addresses(self):
        return {
            "malloc": ctypes.cast(self._cb_malloc, ctypes.c_void_p).value,
            "calloc": ctypes.cast(self._cb_calloc, ctypes.c_void_p).value,
            "realloc": ctypes.cast(self._cb_realloc, ctypes.c_void_p).value,
        }

    # ------------------------------------------------------------- run reset
    def reset(self):
        """Start a new run.  Addresses are reused only if nothing is live."""
        self.drain()
        live = [b for b in self.blocks.values() if b.state == "live"]
        used = self.bump - self.region_start
        if used > 0:
            lo = self.region_start & ~4095
            if not live:
                _libc.madvise(lo, ((self.bump + 4095) & ~4095) - lo, MADV_DONTNEED)
        if not live:
            if self.high > self.base + 4096:
                _libc.mprotect(self.base, ((self.high + PAGE - 1) & ~(PAGE - 1)) - self.base + PAGE, PROT_RW)
            self.high = self.base + 4096
            self.bump = self.base + 4096
        else:
            self.bump = (self.bump + 4095) & ~4095
        if self.bump > self.base + ARENA_SIZE // 2 and live:
            raise MemoryError("tsim arena exhausted by leaked blocks")
        self.region_start = self.bump
        self.blocks = {b.addr: b for b in live} if live else {}
        # leaked blocks of a previous run stay known (so a late free is not 'unknown') but are
        # marked so that they never count as this run's blocks
        for b in self.blocks.values():
            b.call = "stale"
        self.by_id = {}
        self.seq = 0
        self.errors = []
        self.trace = []
        self.current_call = "harness"
        for k in self.stats:
            self.stats[k] = 0
        return len(live)

    # ---------------------------------------------------------------- blocks
    def _fill(self, addr, n, byte):
        if n <= 0:
            return
        if n <= BIG:
            ctypes.memset(addr, byte, n)
        else:
            ctypes.memset(addr, byte, EDGE)
            ctypes.memset(addr + n - EDGE, byte, EDGE)

    def _new_guarded(self, n, kind, fill):
        rz = self.rz
        start = (self.bump + PAGE - 1) & ~(PAGE - 1)
        if self.guard == "end":
            npages = max(1, (rz + n + PAGE - 1) // PAGE)
            end = start + npages * PAGE
            addr = end - n
            lead, tail = addr - start, 0
            guard_at = end
            new_bump = end + PAGE
            region = (start, end)
        else:
            guard_at = start
            addr = start + PAGE
            lead, tail = 0, rz
            new_bump = (addr + n + rz + PAGE - 1) & ~(PAGE - 1)
            region = (addr, new_bump)
        if n > MAX_BLOCK or new_bump + 64 > self.region_start + MAX_RUN_BYTES or new_bump + 64 > self.end:
            raise AllocationRefused(n)
        if _libc.mprotect(guard_at, PAGE, PROT_NONE) != 0:
            raise AllocationRefused(n)  # out of mappings: a runaway kernel
        self.bump = new_bump
        self.high = max(self.high, new_bump)
        if lead:
            ctypes.memset(addr - lead, self.redzone, lead)
        self._fill(addr, n, self.garbage if fill is None else fill)
        if tail:
            ctypes.memset(addr + n, self.redzone, tail)
        self.seq += 1
        th = threading.current_thread()
        b = Block(self.seq, addr, n, n, getattr(th, "sim_call", None) or self.current_call,
                  getattr(th, "sim_id", None), kind, lead, tail, region)
        self.blocks[addr] = b
        self.by_id[b.id] = b
        return b

    def _new(self, n, kind, fill=None, cap=None):
        if self.guard != "none":
            return self._new_guarded(n, kind, fill)
        rz = self.rz
        if cap is None:
            cap = _size_class(n) if self.realloc_policy == "size_class" else n
        phys = rz + cap + rz
        base = self.bump
        if n > MAX_BLOCK or base + phys + 64 > self.region_start + MAX_RUN_BYTES \
                or base + phys + 64 > self.end:
            raise AllocationRefused(n)
        self.bump = (base + phys + 15) & ~15
        addr = base + rz
        ctypes.memset(base, self.redzone, rz)
        self._fill(addr, n, self.garbage if fill is None else fill)
        # slack (cap - n) and trailing red zone
        tail = cap - n + rz
        if tail <= BIG:
            ctypes.memset(addr + n, self.redzone, tail)
        else:
            ctypes.memset(addr + n, self.redzone, EDGE)
            ctypes.memset(addr + cap, self.redzone, rz)
        self.seq += 1
        th = threading.current_thread()
        t = getattr(th, "sim_id", None)
        b = Block(self.seq, addr, n, cap, getattr(th, "sim_call", None) or self.current_call, t, kind,
                  rz, rz)
        self.blocks[addr] = b
        self.by_id[b.id] = b
        return b

    def alloc_input(self, data: bytes, owner=None) -> int:
        """Harness-side allocation (input arrays with exact lengths)."""
        b = self._new(len(data), "input", cap=len(data))
        if data:
            ctypes.memmove(b.addr, data, len(data))
        b.owner = owner
        return b.addr

    # ------------------------------------------------------- kernel-side API
    def _malloc_cb(self, n):
        try:
            return self.malloc(n)
        except AllocationRefused:
            self.errors.append(("absurd_allocation", n))
            return 0
        except BaseException as e:  # never let an exception escape into machine code
            self.errors.append(("harness_exception", "malloc", repr(e)[:200]))
            return self._emergency(n)

    def _calloc_cb(self, a, b):
        try:
            return self.calloc(a, b)
        except AllocationRefused:
            self.errors.append(("absurd_allocation", a * b))
            return 0
        except BaseException as e:
            self.errors.append(("harness_exception", "calloc", repr(e)[:200]))
            return self._emergency(a * b)

    def _realloc_cb(self, p, n):
        try:
            return self.realloc(p or 0, n)
        except AllocationRefused:
            self.errors.append(("absurd_allocation", n))
            return 0
        except BaseException as e:
            self.errors.append(("harness_exception", "realloc", repr(e)[:200]))
            return self._emergency(n)

    def _emergency(self, n):
        base = self.bump
        self.bump = (base + n + 2 * self.rz + 15) & ~15
        return base + self.rz

    def malloc(self, n):
        if self.hook:
            self.hook("heap.malloc")
        self.stats["malloc"] += 1
        if n == 0:
            self.stats["zero_size"] += 1
            if self.zero_policy == "null":
                if self.trace_on:
                    self.trace.append(("m", 0, None))
                return 0
        b = self._new(n, "malloc")
        if self.trace_on:
            self.trace.append(("m", n, b.id))
        return b.addr

    def calloc(self, a, c):
        if self.hook:
            self.hook("heap.calloc")
        self.stats["calloc"] += 1
        n = a * c
        if n == 0:
            self.stats["zero_size"] += 1
            if self.zero_policy == "null":
                if self.trace_on:
                    self.trace.append(("c", 0, None))
                return 0
        b = self._new(n, "calloc", fill=0)
        if self.trace_on:
            self.trace.append(("c", n, b.id))
        return b.addr

    def realloc(self, p, n):
        if self.hook:
            self.hook("heap.realloc")
        self.stats["realloc"] += 1
        if not p:
            self.stats["realloc_null"] += 1
            if n == 0:
                self.stats["zero_size"] += 1
                if self.zero_policy == "null":
                    if self.trace_on:
                        self.trace.append(("r", None, 0, None))
                    return 0
            b = self._new(n, "realloc")
            if self.trace_on:
                self.trace.append(("r", None, n, b.id))
            return b.addr
        old = self.blocks.get(p)
        if old is None or old.state != "live":
            self.errors.append(
                ("bad_realloc", "unknown" if old is None else old.state,
                 None if old is None else old.id, n)
            )
            b = self._new(n, "realloc")
            if self.trace_on:
                self.trace.append(("r", "bad", n, b.id))
            return b.addr
        if n == 0:
            self.stats["zero_size"] += 1
            if self.zero_policy == "null":
                self._release(old, "freed")
                if self.trace_on:
                    self.trace.append(("r", old.id, 0, None))
                return 0
        if n > old.size:
            self.stats["realloc_grow"] += 1
        in_place = False
        if self.realloc_policy == "shrink_in_place" and n <= old.size:
            in_place = True
        elif self.realloc_policy == "size_class" and n <= old.cap:
            in_place = True
        if in_place:
            self.stats["realloc_in_place"] += 1
            if n > old.size:
                self._fill(old.addr + old.size, n - old.size, self.garbage)
            elif n < old.size:
                gap = old.size - n
                if gap <= BIG:
                    ctypes.memset(old.addr + n, self.redzone, gap)
                else:
                    ctypes.memset(old.addr + n, self.redzone, EDGE)
                    ctypes.memset(old.addr + old.size - EDGE, self.redzone, EDGE)
            old.size = n
            if self.trace_on:
                self.trace.append(("r", old.id, n, old.id))
            return old.addr
        self.stats["realloc_moved"] += 1
        b = self._new(n, "realloc")
        keep = min(n, old.size)
        if keep:
            ctypes.memmove(b.addr, old.addr, keep)
        b.owner = old.owner
        self._release(old, "moved")
        if self.trace_on:
            self.trace.append(("r", old.id, n, b.id))
        return b.addr

    def _release(self, b: Block, state: str):
        b.state = state
        self._fill(b.addr, b.size, self.poison)
        if b.region is not None:
            # guard mode: the pages of a released block become inaccessible (stale pointers fault)
            if _libc.mprotect(b.region[0], b.region[1] - b.region[0], PROT_NONE) == 0:
                b.prot = True

    # ----------------------------------------------------------- free() side
    def drain(self):
        """Apply the frees the shim has logged since the last drain."""
        if self.shim is None:
            return 0
        n = self.shim.tsim_free_count()
        k = 0
        for i in range(self.drained, n):
            a = self.shim.tsim_free_at(i)
            self.free_addr(a)
            k += 1
        self.drained = n
        return k

    def free_addr(self, a):
        self.stats["free"] += 1
        b = self.blocks.get(a)
        if b is None:
            self.errors.append(("free_unknown", None))
            if self.trace_on:
                self.trace.append(("f", "unknown"))
            return
        if b.state != "live":
            self.errors.append(("double_free", b.id, b.state, b.call))
            if self.trace_on:
                self.trace.append(("f", b.id, "again"))
            return
        self._release(b, "freed")
        if self.trace_on:
            self.trace.append(("f", b.id))
        if self.on_free:
            self.on_free(b)

    # ------------------------------------------------------------ invariants
    def _all(self, addr, n, byte):
        if n <= 0:
            return True
        if n <= BIG:
            return ctypes.string_at(addr, n) == bytes([byte]) * n
        return (ctypes.string_at(addr, EDGE) == bytes([byte]) * EDGE
                and ctypes.string_at(addr + n - EDGE, EDGE) == bytes([byte]) * EDGE)

    def check(self, blocks=None):
        """Red zones of every block, poison of every released block."""
        self.drain()
        errs = list(self.errors)
        self.errors = []
        for b in (self.blocks.values() if blocks is None else blocks):
            if b.call == "stale" or b.prot:
                continue
            rz = b.tail
            if b.lead and not self._all(b.addr - b.lead, b.lead, self.redzone):
                errs.append(("underflow", b.id, b.size, b.kind, b.call))
            tail = b.cap - b.size + rz
            if b.state == "live":
                if tail <= BIG:
                    ok = self._all(b.addr + b.size, tail, self.redzone)
                else:
                    ok = self._all(b.addr + b.size, EDGE, self.redzone) and self._all(
                        b.addr + b.cap, rz, self.redzone)
                if not ok:
                    errs.append(("overflow", b.id, b.size, b.kind, b.call))
            else:
                if not self._all(b.addr + b.cap, rz, self.redzone):
                    errs.append(("overflow", b.id, b.size, b.kind, b.call))
                if not self._all(b.addr, b.size, self.poison):
                    errs.append(("write_after_release", b.id, b.size, b.state, b.call))
        return errs

    def live_blocks(self, include_stale=False):
        self.drain()
        return [b for b in self.blocks.values()
                if b.state == "live" and (include_stale or b.call != "stale")]

    def block_at(self, addr):
        return self.blocks.get(addr)

    def read(self, b: Block) -> bytes:
        if b.size <= BIG:
            return ctypes.string_at(b.addr, b.size)
        return ctypes.string_at(b.addr, EDGE) + ctypes.string_at(b.addr + b.size - EDGE, EDGE)

    def snapshot(self, exclude_call=None):
        """bytes of every live block (optionally except those of one call)."""
        return {b.id: self.read(b) for b in self.blocks.values()
                if b.state == "live" and b.call != "stale" and b.call != exclude_call}

    def in_arena(self, addr):
        return self.base <= addr < self.end
