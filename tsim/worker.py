"""Simulation worker process.

Started by the orchestrator with LD_PRELOAD=libtsim.so and a pinned PYTHONHASHSEED.
Journal lines go to stdout prefixed with '@@' (anything else on stdout is ignored).

modes
  batch : run the seeds of one batch that belong to this worker until the deadline
  serve : read plans (one JSON per line) on stdin, run each, answer with one result line
"""

from __future__ import annotations

import faulthandler
import json
import os
import sys
import time

_real_stdout = None


def emit(obj):
    _real_stdout.write("@@" + json.dumps(obj, default=repr, separators=(",", ":")) + "\n")
    _real_stdout.flush()


def phase(p):
    emit({"ev": "phase", "p": p})


def get_engine(name):
    if name == "K":
        from .engines import kernel as e
    elif name == "S":
        from .engines import session as e
    elif name == "T":
        from .engines import threads as e
    elif name == "P":
        from .engines import process as e
    elif name == "G":
        from .engines import genhist as e
    else:
        raise ValueError(name)
    return e


def main():
    global _real_stdout
    cfg = json.loads(sys.argv[1])
    # keep the journal on the original stdout; everything else the process prints goes to stderr
    _real_stdout = os.fdopen(os.dup(1), "w")
    os.dup2(2, 1)
    faulthandler.enable()
    want = str(cfg.get("hashseed", 0))
    if os.environ.get("PYTHONHASHSEED") != want:
        emit({"ev": "fatal", "why": f"PYTHONHASHSEED={os.environ.get('PYTHONHASHSEED')} != {want}"})
        sys.exit(3)
    eng = get_engine(cfg["engine"])
    from .boot import SIM

    SIM.phase_cb = phase  # (this module runs as __main__: engines must not import it by name)
    # the warm-up is ordinary sequential use of the library (a few evaluations on each back end, a
    # collection): a process that dies by a signal in it is journalled like a crash inside a run
    phase("warmup")
    t_boot = time.time()
    try:
        eng.boot(cfg)
    except BaseException as e:
        import traceback

        emit({"ev": "fatal", "why": "boot: " + repr(e), "tb": traceback.format_exc()[-2000:]})
        sys.exit(3)
    emit({"ev": "ready", "pid": os.getpid()})
    watchdog = cfg.get("watchdog_s", 120)
    SIM.rearm_cb = lambda: faulthandler.dump_traceback_later(watchdog, exit=True)

    def run_one(plan):
        faulthandler.dump_traceback_later(watchdog, exit=True)
        try:
            return eng.run_plan(plan, cfg)
        finally:
            faulthandler.cancel_dump_traceback_later()

    if cfg["mode"] == "serve":
        for line in sys.stdin:
            line = line.strip()
            if not line:
                continue
            plan = json.loads(line)
            emit({"ev": "begin", "i": -1, "seed": plan.get("run_seed")})
            try:
                if plan.get("warmup_only"):
                    # replay of "the process dies during warm-up": it did not, or we would not be here
                    res = {"verdict": "ok", "violations": [], "digest": "warmup"}
                else:
                    res = run_one(plan)
            except BaseException as e:
                import traceback

                res = {"verdict": "harness_error", "error": repr(e),
                       "tb": traceback.format_exc()[-3000:], "violations": []}
            emit({"ev": "end", "i": -1, "seed": plan.get("run_seed"), "res": res})
        emit({"ev": "summary", "runs": 0})
        return

    from .workload import derive_seed

    w, nw = cfg["w"], cfg["nw"]
    # the budget counts from the moment the worker is ready: on a loaded machine the warm-up alone
    # (C compilations) can outlast a short budget, and a batch without a single run is a harness error
    boot_s = min(300.0, time.time() - t_boot)
    deadline = cfg["deadline"] + boot_s
    max_runs = cfg.get("max_runs", 1 << 60)
    # deterministic floor: every index below min_index is run even if the wall budget is over (a
    # loaded machine must not shrink the explored seed set below what the check is known to need),
    # but never beyond hard_deadline
    min_index = cfg.get("min_index", 0)
    hard_deadline = cfg.get("hard_deadline", cfg["deadline"]) + boot_s
    i = cfg.get("start", 0)
    runs = 0
    only = cfg.get("only")
    while True:
        if only is not None:
            if runs >= 1:
                break
            i = only
        seed = derive_seed(cfg["batch_seed"], cfg["prop"], i)
        if only is None and seed % nw != w:
            i += 1
            continue
        if only is None:
            now = time.time()
            if i >= max_runs or now > hard_deadline or (now > deadline and i >= min_index):
                break
        emit({"ev": "begin", "i": i, "seed": seed})
        t0 = time.time()
        try:
            plan = eng.gen_plan(seed, cfg)
            res = run_one(plan)
        except BaseException as e:
            import traceback

            res = {"verdict": "harness_error", "error": repr(e),
                   "tb": traceback.format_exc()[-3000:], "violations": []}
            plan = None
        res["wall"] = round(time.time() - t0, 4)
        keep_plan = res["verdict"] in ("violation", "harness_error") or runs < 2
        emit({"ev": "end", "i": i, "seed": seed, "res": res, "plan": plan if keep_plan else None})
        runs += 1
        i += 1
        if res["verdict"] == "violation":
            # a worker that saw a violation is retired; the orchestrator starts a fresh one
            emit({"ev": "summary", "runs": runs, "next": i, "retired": True})
            return
    emit({"ev": "summary", "runs": runs, "next": i, "retired": False})


if __name__ == "__main__":
    main()
