"""Seeded workload generators shared by the engines.

Everything here is a pure function of the `random.Random` it is handed and
never imports tensora: a plan is a pure function of its run seed.
"""

from __future__ import annotations

import hashlib
import itertools
import struct

INDEX_POOL = ["i", "j", "k", "l"]
INPUT_NAMES = ["B", "C", "D", "E"]
VALUE_POOL = [0.0, 1.0, -2.0, 0.5, 3.0]
CAPACITIES = [1, 1, 1, 2, 2, 3, 5, 8, 1, 2, 3, 1 << 20]
SIZES = [0, 1, 2, 3, 4, 7]


def derive_seed(*parts) -> int:
    h = hashlib.blake2b("/".join(str(p) for p in parts).encode(), digest_size=8).digest()
    return int.from_bytes(h, "big") >> 1


# --------------------------------------------------------------------- features
def swarm_features(rng):
    return {
        "literals": rng.random() < 0.5,
        "repeats": rng.random() < 0.35,
        "permuted": rng.random() < 0.6,
        "max_order": 4 if rng.random() < 0.05 else rng.choice([1, 2, 2, 3, 3, 3]),
        "zero_dims": rng.random() < 0.3,
        "broadcast_target": rng.random() < 0.07,
        "depth": rng.choice([0, 1, 1, 2, 2, 3]),
        "sparse_bias": rng.choice([0.2, 0.5, 0.5, 0.8]),
    }


# ------------------------------------------------------------------ expressions
def _expr_to_str(e, rng=None, parent=None, side=None):
    k = e[0]
    if k == "t":
        return f"{e[1]}({','.join(e[2])})"
    if k == "lit":
        return e[1]
    l = _expr_to_str(e[1], rng, k, "l")
    r = _expr_to_str(e[2], rng, k, "r")
    s = f"{l} {k} {r}"
    need = False
    if parent == "*" and k in "+-":
        need = True
    elif parent == "*" and k == "*" and side == "r":
        need = True
    elif parent in ("+", "-") and k in "+-" and side == "r":
        need = True
    elif rng is not None and parent is not None and rng.random() < 0.1:
        need = True
    return f"({s})" if need else s


def _gen_expr(rng, refs, depth, feat):
    r = rng.random()
    if depth <= 0 or r < 0.3:
        if feat["literals"] and rng.random() < 0.15:
            return ("lit", rng.choice(["2", "0", "1", "3.5", "0.0", "1e0"]))
        return rng.choice(refs)
    op = rng.choice(["+", "-", "*", "*"])
    return (op, _gen_expr(rng, refs, depth - 1, feat), _gen_expr(rng, refs, depth - 1, feat))


def expr_to_json(e):
    if e[0] == "t":
        return ["t", e[1], list(e[2])]
    if e[0] == "lit":
        return ["lit", e[1]]
    return [e[0], expr_to_json(e[1]), expr_to_json(e[2])]


def expr_from_json(j):
    if j[0] == "t":
        return ("t", j[1], tuple(j[2]))
    if j[0] == "lit":
        return ("lit", j[1])
    return (j[0], expr_from_json(j[1]), expr_from_json(j[2]))


def expr_to_str(j):
    return _expr_to_str(expr_from_json(j))


def expr_refs(j):
    return _refs_of(expr_from_json(j), [])


def _refs_of(e, out):
    if e[0] == "t":
        out.append(e)
    elif e[0] != "lit":
        _refs_of(e[1], out)
        _refs_of(e[2], out)
    return out


def _fmt(rng, order, feat):
    modes = "".join("s" if rng.random() < feat["sparse_bias"] else "d" for _ in range(order))
    if order > 1 and feat["permuted"] and rng.random() < 0.5:
        perm = list(range(order))
        rng.shuffle(perm)
        if perm != sorted(perm):
            return "".join(m + str(p) for m, p in zip(modes, perm))
    return modes


def gen_problem(rng, feat=None):
    """-> dict(assignment, formats, target_indexes, refs, sizes_groups)"""
    feat = feat or swarm_features(rng)
    n_idx = rng.randint(1, 4)
    idx = INDEX_POOL[:n_idx]
    nt = rng.randint(1, 4)
    home = {}
    for n in INPUT_NAMES[:nt]:
        o = rng.choice([0, 1, 1, 2, 2, 2, 3, 3, 4])
        o = min(o, feat["max_order"], n_idx)
        home[n] = tuple(rng.sample(idx, o))
    refs = []
    for n, ix in home.items():
        refs.append(("t", n, ix))
        if feat["repeats"] and len(ix) >= 1 and rng.random() < 0.5:
            alt = list(ix)
            if rng.random() < 0.5 and len(ix) > 1:
                rng.shuffle(alt)
            else:
                alt = rng.sample(idx, len(ix))
            refs.append(("t", n, tuple(alt)))
    for _ in range(20):
        e = _gen_expr(rng, refs, feat["depth"], feat)
        used_refs = _refs_of(e, [])
        if used_refs:
            break
    else:
        e = refs[0]
        used_refs = [e]
    used_idx = []
    for _, _, ix in used_refs:
        for x in ix:
            if x not in used_idx:
                used_idx.append(x)
    pool = list(used_idx)
    if feat["broadcast_target"]:
        pool += [x for x in INDEX_POOL if x not in pool][:1]
    to = rng.randint(0, min(3 if feat["max_order"] < 4 else 4, len(pool)))
    tidx = tuple(rng.sample(pool, to))
    assignment = f"A({','.join(tidx)}) = {_expr_to_str(e, rng)}"
    formats = {"A": _fmt(rng, len(tidx), feat)}
    if tidx and "s" not in formats["A"] and rng.random() < 0.5:
        # outputs with at least one compressed level are where C02/C04/C05 have something to say
        f = list(formats["A"])
        pos = [i for i, ch in enumerate(f) if ch == "d"]
        f[rng.choice(pos)] = "s"
        formats["A"] = "".join(f)
    tensors = {}
    for _, n, ix in used_refs:
        if n not in tensors:
            tensors[n] = len(ix)
            formats[n] = _fmt(rng, len(ix), feat)
    # indexes that must have equal size: positions shared by several references of one tensor
    parent = {x: x for x in set(used_idx) | set(tidx)}

    def find(x):
        while parent[x] != x:
            parent[x] = parent[parent[x]]
            x = parent[x]
        return x

    first = {}
    for _, n, ix in used_refs:
        if n in first:
            for a, b in zip(first[n], ix):
                parent[find(a)] = find(b)
        else:
            first[n] = ix
    return {
        "assignment": assignment,
        "formats": formats,
        "target": list(tidx),
        "inputs": {n: list(first[n]) for n in tensors},
        "classes": {x: find(x) for x in parent},
        "features": feat,
        "expr": expr_to_json(e),
    }


def gen_sizes(rng, prob, feat):
    pool = SIZES if feat["zero_dims"] else SIZES[1:]
    per_class = {}
    sizes = {}
    for x, c in sorted(prob["classes"].items()):
        if c not in per_class:
            per_class[c] = rng.choice(pool)
        sizes[x] = per_class[c]
    return sizes


HUGE_SIZES = [65536, 50000, 46341, 1 << 20, 65536]


def gen_entries(rng, dims, density=None):
    total = 1
    for d in dims:
        total *= d
    if total == 0:
        return []
    if total > 5000:
        # hypersparse: a handful of stored coordinates in a huge index space (edges included)
        k = rng.choice([0, 1, 2, 3, 5]) if density is None or density > 0 else 0
        seen = []
        for _ in range(k):
            c = [rng.choice([0, d - 1, rng.randrange(d), rng.randrange(d)]) for d in dims]
            if c not in seen:
                seen.append(c)
        return [[c, gen_value(rng)] for c in seen]
    allc = list(itertools.product(*[range(d) for d in dims]))
    k = rng.choice([0, 1, 2, max(1, total // 2), max(1, total // 2), total, total, total]) if density is None else density
    k = min(k, total)
    coords = rng.sample(allc, k)
    return [[list(c), gen_value(rng)] for c in coords]


def gen_value(rng):
    if rng.random() < 0.6:
        return rng.choice(VALUE_POOL)
    return round(rng.uniform(-4, 4), 3)


def gen_heap_knobs(rng):
    g1, g2 = rng.sample([0xA5, 0x3C, 0x77, 0xFF, 0x01, 0x80, 0x5A, 0x7F], 2)
    z1, z2 = rng.sample([0xCA, 0xCB, 0x11, 0xEE, 0x42, 0x99], 2)
    return {
        "realloc": rng.choice(["move", "move", "shrink_in_place", "size_class"]),
        "zero": rng.choice(["unique", "unique", "null"]),
        "rz": rng.choice([64, 64, 128, 256]),
        "twins": [[g1, z1, 0xDD], [g2, z2, 0xB7]],
    }


def gen_k_plan(run_seed: int, hashseed: int = 0, catalogue=None, p_backend_c: float = 0.0):
    import random

    rng = random.Random(run_seed)
    feat = swarm_features(rng)
    if catalogue and rng.random() < 0.2:
        a, fm = rng.choice(catalogue)
        prob = problem_from_text(a, fm)
        prob["features"] = feat
    else:
        prob = gen_problem(rng, feat)
    sizes = gen_sizes(rng, prob, feat)
    huge = _huge_classes(prob)
    inputs = {}
    names_in = list(prob["inputs"])
    polar = rng.random() < 0.25 and len(names_in) >= 2  # some operands exhausted at once, the rest full
    empties = set(rng.sample(names_in, rng.randint(1, len(names_in) - 1))) if polar else set()
    for n, ix in prob["inputs"].items():
        dims = [sizes[x] for x in ix]
        density = None
        if polar:
            total = 1
            for d in dims:
                total *= d
            density = 0 if n in empties else total
        inputs[n] = {"dims": dims, "entries": gen_entries(rng, dims, density)}
        if 0 in dims and any(d > 0 for d in dims) and rng.random() < 0.6:
            inputs[n]["stubs"] = [[rng.randrange(d) if d > 0 else None for d in dims]
                                  for _ in range(rng.randint(1, 3))]
    n_comp = rng.choice([0, 1, 1, 2, 3])
    revalues = []
    for _ in range(n_comp):
        rv = {}
        for n, t in inputs.items():
            rv[n] = [gen_value(rng) for _ in t["entries"]]
        revalues.append(rv)
    capacity = rng.choice(CAPACITIES)
    heap_knobs = gen_heap_knobs(rng)
    backend_c = rng.random() < p_backend_c
    # hypersparse runs: indexes that are stored at compressed levels only get dimensions whose
    # products leave int32 (each one fits; so does every stored-element count).  Drawn after
    # everything else; the inputs of such a run are re-drawn from a forked generator.
    if huge and rng.random() < 0.3:
        r2 = random.Random(rng.getrandbits(64))
        pick = huge if r2.random() < 0.75 else [r2.choice(huge)]
        for c in pick:
            v = r2.choice(HUGE_SIZES)
            for x, cx in prob["classes"].items():
                if cx == c and x in sizes:
                    sizes[x] = v
        for n, ix in prob["inputs"].items():
            dims = [sizes[x] for x in ix]
            if dims != inputs[n]["dims"]:
                inputs[n] = {"dims": dims, "entries": gen_entries(r2, dims)}
        revalues = [{n: [gen_value(r2) for _ in t["entries"]] for n, t in inputs.items()}
                    for _ in revalues]
    # electric-fence placement (drawn last so that older seeds keep their problem and inputs)
    if rng.random() < 0.3:
        heap_knobs["guard"] = True
        if heap_knobs["realloc"] == "size_class":
            heap_knobs["realloc"] = "move"
    # small-stack runs: the whole history runs on a thread with a 256 KiB stack, on vectors with
    # thousands of stored entries over ONE index variable (several index variables of that size -
    # even of one equality class, A(i) = C(k) + B(i) - are 4*10^8 legitimate iterations, which the
    # thorough tier once ran into the watchdog) (a kernel needs O(1) stack; one that takes a few bytes per loop
    # iteration - an alloca inside a loop - runs off a small stack after a few thousand iterations and
    # off the usual 8 MiB only after hundreds of thousands)
    small_stack = False
    orders = [len(ix) for ix in prob["inputs"].values()] + [len(prob["target"])]
    if max(orders) <= 1 and len(prob["classes"]) <= 1 and not backend_c and sum(1 for n in prob["inputs"] if "s" in prob["formats"].get(n, "")) >= 1 \
            and all(v <= 5000 for v in sizes.values()) and rng.random() < 0.3:
        r3 = random.Random(rng.getrandbits(64))
        small_stack = True
        for x in sizes:
            sizes[x] = 20000
        for n, ix in prob["inputs"].items():
            dims = [sizes[x] for x in ix]
            k = r3.choice([3000, 6000, 9000]) if dims else 1
            coords = [[c] for c in sorted(r3.sample(range(dims[0]), k))] if dims else [[]]
            inputs[n] = {"dims": dims, "entries": [[c, gen_value(r3)] for c in coords]}
        revalues = [{n: [gen_value(r3) for _ in t["entries"]] for n, t in inputs.items()}
                    for _ in revalues[:1]]
    # history: relatives of the problem generated in the same process just before it (a storage twin
    # - same iteration structure, other index-to-dimension map - or the problem itself), for a subset
    # of the kernel kinds.  What is generated for a problem must not depend on it.
    pre = []
    if rng.random() < 0.12:
        for _ in range(rng.choice([1, 1, 2])):
            tw = storage_twin(rng, prob["assignment"], prob["formats"]) if rng.random() < 0.8 else None
            a2, f2 = tw if tw is not None else (prob["assignment"], prob["formats"])
            pre.append({"assignment": a2, "formats": f2,
                        "kinds": rng.choice([["compute"], ["assemble"], ["evaluate"], ["assemble", "compute"],
                                             ["compute", "evaluate"]])})
    separate = None
    if not backend_c and rng.random() < 0.12:
        separate = ["assemble", "compute", "evaluate"]
        rng.shuffle(separate)
    return {
        "small_stack": small_stack,
        "pre_generate": pre,
        "separate_modules": separate,
        "engine": "K",
        "run_seed": run_seed,
        "hashseed": hashseed,
        "problem": {"assignment": prob["assignment"], "formats": prob["formats"]},
        "expr": prob.get("expr"),
        "target": prob["target"],
        "input_indexes": prob["inputs"],
        "capacity": capacity,
        "heap": heap_knobs,
        "sizes": sizes,
        "classes": prob["classes"],
        "inputs": inputs,
        "revalues": revalues,
        "backend_c": backend_c,
    }


def _terms(e):
    """Additive terms of an expression tree, each a list of its leaves."""
    if e[0] in ("t", "lit"):
        return [[e]]
    l, r = _terms(e[1]), _terms(e[2])
    if e[0] == "*":
        return [a + b for a in l for b in r]
    return l + r


def _huge_classes(prob):
    """Index classes that may be given a huge dimension without the *result* becoming huge: all
    occurrences (inputs and target) are at compressed levels, and every additive term of the
    expression contains a tensor indexed by the class (a term without it is broadcast along it, a
    literal term makes the result dense - both legitimately produce dimension-many entries)."""
    if prob.get("expr") is None:
        return []
    terms = _terms(expr_from_json(prob["expr"]))
    tname = prob.get("target_name", "A")
    occ = {}
    tensors = dict(prob["inputs"])
    tensors[tname] = prob["target"]
    for n, ix in tensors.items():
        f = prob["formats"].get(n)
        if f is None:
            f = "d" * len(ix)
        modes, ordering = parse_fmt(f)
        if len(modes) != len(ix):
            return []
        for l, m in enumerate(modes):
            x = ix[ordering[l]]
            occ.setdefault(prob["classes"].get(x, x), []).append(m)
    ok = []
    for c, ms in sorted(occ.items()):
        if not ms or not all(m == "s" for m in ms):
            continue
        if not all(any(leaf[0] == "t" and any(prob["classes"].get(x, x) == c for x in leaf[2]) for leaf in term)
                   for term in terms):
            continue
        # broadcasting is per index VARIABLE: a target index of the class that some term does not
        # mention is broadcast along by that term, even if the term mentions a class-mate (a tensor
        # mentioned twice, A(l,k,i) = B(i,j) + B(l,k), puts i and l into one class)
        tvars = [x for x in prob["target"] if prob["classes"].get(x, x) == c]
        if all(any(leaf[0] == "t" and x in leaf[2] for leaf in term) for x in tvars for term in terms):
            ok.append(c)
    return ok


def hypersparse_ok(plan):
    """Does a (possibly shrunk) K plan still respect the precondition of its huge dimensions?"""
    big = {plan["classes"].get(x, x) for x, v in plan["sizes"].items() if v > 5000}
    if not big:
        return True
    prob = {"expr": plan.get("expr"), "target": plan["target"], "inputs": plan["input_indexes"],
            "formats": plan["problem"]["formats"], "classes": plan["classes"],
            "target_name": plan["problem"]["assignment"].split("(")[0].strip()}
    return big <= set(_huge_classes(prob))


def storage_twin(rng, assignment, formats):
    """A problem with the SAME iteration structure and another index-to-dimension map: one tensor of
    order >= 2 has its index list permuted in every mention and its mode ordering permuted the other
    way, so that every level still stores the same index variable with the same mode - only which
    `dimensions[k]` holds that variable's extent changes.  -> (assignment, formats) or None"""
    import re

    cands = [n for n, f in formats.items() if len(parse_fmt(f)[0]) >= 2]
    if not cands:
        return None
    name = rng.choice(sorted(cands))
    modes, ordering = parse_fmt(formats[name])
    n = len(modes)
    perm = list(range(n))
    for _ in range(5):
        rng.shuffle(perm)
        if perm != sorted(perm):
            break
    else:
        return None
    inv = [perm.index(k) for k in range(n)]

    def mention(m):
        if m.group(1) != name:
            return m.group(0)
        idx = [x.strip() for x in m.group(2).split(",") if x.strip()]
        if len(idx) != n:
            return m.group(0)
        return f"{name}({','.join(idx[perm[k]] for k in range(n))})"

    a2 = re.sub(r"([A-Za-z][A-Za-z0-9]*)\(([^)]*)\)", mention, assignment)
    new_ord = [inv[ordering[l]] for l in range(n)]
    f2 = dict(formats)
    f2[name] = "".join(modes) if new_ord == sorted(new_ord) else "".join(m + str(o) for m, o in zip(modes, new_ord))
    if a2 == assignment and f2 == formats:
        return None
    return a2, f2


# ------------------------------------------------- catalogue problems from text
def problem_from_text(assignment: str, formats: dict):
    """Light-weight reading of an assignment string (only what the generators need)."""
    import re

    lhs, rhs = assignment.split("=")
    m = re.match(r"\s*([A-Za-z][A-Za-z0-9]*)\(([^)]*)\)", lhs)
    tname = m.group(1)
    tidx = [x.strip() for x in m.group(2).split(",") if x.strip()]
    refs = []
    for mm in re.finditer(r"([A-Za-z][A-Za-z0-9]*)\(([^)]*)\)", rhs):
        refs.append((mm.group(1), [x.strip() for x in mm.group(2).split(",") if x.strip()]))
    parent = {}
    for _, ix in refs:
        for x in ix:
            parent.setdefault(x, x)
    for x in tidx:
        parent.setdefault(x, x)

    def find(x):
        while parent[x] != x:
            x = parent[x]
        return x

    first = {}
    for n, ix in refs:
        if n in first:
            for a, b in zip(first[n], ix):
                parent[find(a)] = find(b)
        else:
            first[n] = ix
    fm = dict(formats)
    fm.setdefault(tname, "d" * len(tidx))
    for n, ix in first.items():
        fm.setdefault(n, "d" * len(ix))
    # the generators call the output "A"; a catalogue entry may use another name
    return {
        "assignment": assignment,
        "formats": fm,
        "target": tidx,
        "target_name": tname,
        "inputs": {n: list(ix) for n, ix in first.items()},
        "classes": {x: find(x) for x in parent},
    }


# ----------------------------------------------------------- structure builder
def parse_fmt(fmt: str):
    """'ds' -> (('d','s'), (0,1));  'd1s0' -> (('d','s'), (1,0))"""
    if any(ch.isdigit() for ch in fmt):
        modes = tuple(fmt[0::2])
        ordering = tuple(int(x) for x in fmt[1::2])
    else:
        modes = tuple(fmt)
        ordering = tuple(range(len(fmt)))
    return modes, ordering


def build_structure(dims, fmt: str, entries, stubs=()):
    """Canonical taco structure of a tensor, built independently of tensora.

    entries: list of [coords, value]; stored explicitly (zeros included) in
    compressed levels.  stubs: coordinates (None for the zero-sized dimensions) of
    prefixes that compressed levels store although no value lies below them (only
    possible above a zero-sized level; well-formed all the same).  Returns
    (levels, vals): levels[l] is None for a dense level, (pos, crd) for a
    compressed one.
    """
    modes, ordering = parse_fmt(fmt)
    order = len(dims)
    stored = {}
    for c, v in entries:
        stored[tuple(c[ordering[l]] for l in range(order))] = v
    keys = sorted(stored)
    for c in stubs:
        pre = []
        for l in range(order):
            x = c[ordering[l]]
            if x is None:
                break
            pre.append(x)
        if pre:
            keys.append(tuple(pre))
    keys = sorted(set(keys))
    positions = [()]
    levels = []
    for l in range(order):
        d = dims[ordering[l]]
        if modes[l] == "d":
            positions = [p + (x,) for p in positions for x in range(d)]
            levels.append(None)
        else:
            children = {}
            for kx in keys:
                if len(kx) > l:
                    children.setdefault(kx[:l], set()).add(kx[l])
            pos = [0]
            crd = []
            newpos = []
            for p in positions:
                ch = sorted(children.get(p, ()))
                crd += ch
                newpos += [p + (c,) for c in ch]
                pos.append(len(crd))
            levels.append((pos, crd))
            positions = newpos
    vals = [stored.get(p, 0.0) for p in positions]
    return levels, vals


def pack_i32(xs):
    return struct.pack(f"<{len(xs)}i", *xs)


def pack_f64(xs):
    return struct.pack(f"<{len(xs)}d", *xs)


# ------------------------------------------------------------------ catalogue
# (assignment, formats): every expression shape used in tests/, tests_cffi/, the README and the
# examples quoted in properties.jsonl, with a few format assignments each.
CATALOGUE = [
    ("A(i) = B(i,j) * C(j)", {"A": "d", "B": "ds", "C": "d"}),
    ("A(i) = B(i,j) * C(j)", {"A": "s", "B": "ds", "C": "s"}),
    ("A(i) = B(i,j) * C(j)", {"A": "d", "B": "d1s0", "C": "d"}),
    ("A(i,j) = B(i,j) + C(i,j)", {"A": "ds", "B": "ds", "C": "ds"}),
    ("A(i,j) = B(i,j) + C(i,j)", {"A": "ss", "B": "ss", "C": "ds"}),
    ("A(i,j) = B(i,j) + C(i,j)", {"A": "dd", "B": "ds", "C": "sd"}),
    ("A(i,j) = B(i,j) - C(i,j)", {"A": "ds", "B": "ds", "C": "ds"}),
    ("A(i,j) = B(i,j) * C(i,j)", {"A": "ss", "B": "ds", "C": "ss"}),
    ("A(i,j) = B(i,k) * C(k,j)", {"A": "ds", "B": "ds", "C": "ds"}),
    ("A(i,j) = B(i,k) * C(k,j)", {"A": "ss", "B": "ds", "C": "d1s0"}),
    ("A(i,j) = B(i,k) * C(k,j)", {"A": "dd", "B": "dd", "C": "dd"}),
    ("A(i,j) = B(i,k) * C(k,j) + D(i,j)", {"A": "ds", "B": "ds", "C": "ds", "D": "ds"}),
    ("A(i,j) = B(i,k) * C(k,j) + D(i,j)", {"A": "dd", "B": "ds", "C": "d1s0", "D": "dd"}),
    ("A() = B(i,j) * C(i,j)", {"A": "", "B": "ds", "C": "ds"}),
    ("A() = B(i) * C(i)", {"A": "", "B": "s", "C": "s"}),
    ("A() = B() + C(k) + D(k)", {"A": "", "B": "", "C": "s", "D": "d"}),
    ("A() = C(k) + D(k) + B()", {"A": "", "B": "", "C": "d", "D": "s"}),
    ("A(j,i) = B(i,j)", {"A": "ds", "B": "ds"}),
    ("A(j,i) = B(i,j)", {"A": "d1s0", "B": "ds"}),
    ("A(i,j) = B(i,j)", {"A": "ss", "B": "dd"}),
    ("A(i,j) = B(i,j)", {"A": "sd", "B": "ss"}),
    ("A(i,j,k) = B(i,j,k)", {"A": "sss", "B": "sss"}),
    ("A(i,j,k) = B(i,j,k)", {"A": "dss", "B": "ddd"}),
    ("A(i,j,k) = B(i,j,k) + C(i,j,k)", {"A": "sds", "B": "sss", "C": "dss"}),
    ("A(i,j,k) = B(j,i,k)", {"A": "sss", "B": "s1s0s2"}),
    ("A(i,j,k) = B(k,i,j)", {"A": "d2d0d1", "B": "sss"}),
    ("A(i) = B(i) + C(i)", {"A": "s", "B": "s", "C": "s"}),
    ("A(i) = B(i) + C(i)", {"A": "d", "B": "s", "C": "d"}),
    ("A(i) = B(i) * C(i)", {"A": "s", "B": "s", "C": "d"}),
    ("A(i) = 2 * B(i)", {"A": "s", "B": "s"}),
    ("A(i) = B(i) + 1", {"A": "d", "B": "s"}),
    ("A(i) = 2.0 * B(i)", {"A": "s", "B": "s"}),
    ("A(i) = B(i) * 3 + C(i)", {"A": "s", "B": "s", "C": "s"}),
    ("A(i,j) = B(i,j) * 0.5 - 1", {"A": "dd", "B": "ds"}),
    ("A(i) = B(i) + 1.0", {"A": "d", "B": "s"}),
    ("A(i) = 0 * B(i) + C(i)", {"A": "s", "B": "s", "C": "s"}),
    ("A(i) = B(i) * B(i)", {"A": "s", "B": "s"}),
    ("A(i,j) = B(i,j) * B(j,i)", {"A": "ds", "B": "ds"}),
    ("A(i,j) = B(i) * C(j)", {"A": "ds", "B": "s", "C": "s"}),
    ("A(i,j) = B(i) + C(j)", {"A": "dd", "B": "s", "C": "s"}),
    ("A(i) = B(i,j,k) * C(j) * D(k)", {"A": "s", "B": "sss", "C": "d", "D": "s"}),
    ("A(i,j) = B(i,j,k) * C(k)", {"A": "ss", "B": "dss", "C": "s"}),
    ("A(i,j) = B(i,k,l) * C(k,j) * D(l,j)", {"A": "dd", "B": "sss", "C": "dd", "D": "dd"}),
    ("A(i,l) = B(i,j) * C(j,k) * D(k,l)", {"A": "ds", "B": "ds", "C": "ds", "D": "ds"}),
    ("A(i) = B(i,j) * C(j) - D(i)", {"A": "d", "B": "ds", "C": "d", "D": "s"}),
    ("A(i) = (B(i) + C(i)) * D(i)", {"A": "s", "B": "s", "C": "s", "D": "s"}),
    ("A(i,j) = (B(i,j) + C(i,j)) * D(j)", {"A": "ss", "B": "ss", "C": "ds", "D": "s"}),
    ("A(i) = (B(i) + C(i)) * D(i) - E(k)", {"A": "s", "B": "s", "C": "s", "D": "s", "E": "d"}),
    ("A(i) = (B(i) + C(i,j)) * D(i,j) - E(k)", {"A": "s", "B": "s", "C": "ss", "D": "sd", "E": "d"}),
    ("A(i) = B(i) * C(i) + D(i) * E(i)", {"A": "s", "B": "s", "C": "s", "D": "s", "E": "s"}),
    ("A(i) = B(i) * C(i) + D(i)", {"A": "d", "B": "s", "C": "s", "D": "d"}),
    ("A(i,j) = (B(i,j) + C(i,j)) * D(i,j) + E(i,j)", {"A": "ds", "B": "ds", "C": "ds", "D": "ds", "E": "ds"}),
    ("A(i,j) = B(i,j) * C(i,j) - D(j)", {"A": "dd", "B": "ss", "C": "ss", "D": "d"}),
    # a sum or a deeper sparse loop directly below the last compressed output level: coordinates that
    # are visited although nothing is written below them (seeded change B-C04-1)
    ("A(i) = B(i,j) * C(j) + D(i)", {"A": "s", "B": "ss", "C": "d", "D": "s"}),
    ("A(i) = B(i,j) * C(j) + D(i)", {"A": "s", "B": "ss", "C": "s", "D": "s"}),
    ("A(i) = B(i,j) * C(j) - D(i)", {"A": "s", "B": "ds", "C": "s", "D": "s"}),
    ("A(i,j) = B(i,j,k) * C(k)", {"A": "ss", "B": "sds", "C": "s"}),
    ("A(i,j) = B(i,j,k) * C(k) + D(i,j)", {"A": "ss", "B": "sss", "C": "s", "D": "ss"}),
    ("A(i) = B(i,j,k) * C(j) * D(k)", {"A": "s", "B": "sds", "C": "d", "D": "s"}),
    # contraction inside a sum with operands of different depth at the outer index (seeded D-C15-1/2)
    ("A(i) = B(i,j) * C(i)", {"A": "d", "B": "ss", "C": "s"}),
    ("A(i) = B(i,j) + C(i)", {"A": "d", "B": "ss", "C": "s"}),
    # problems the generator refuses today (NotImplementedError / no kernel): counted as skipped,
    # but exercised as soon as a change makes them compile
    ("A(i,j,k) = B(j,i,k)", {"A": "dds", "B": "sds"}),
    ("A(i,j,k) = B(j,i,k)", {"A": "dds", "B": "dss"}),
    ("A(i,j,k) = B(j,i,k)", {"A": "dds", "B": "s1s0s2"}),
    ("A(i,j,k) = B(k,j,i)", {"A": "dds", "B": "sss"}),
    ("A(i,j,k) = B(j,i,k) + C(i,j,k)", {"A": "dds", "B": "sds", "C": "dds"}),
    ("A(i,j,k) = B(i,j,k)", {"A": "d1d0s2", "B": "sss"}),
    ("A(i,j) = B(j,i)", {"A": "ss", "B": "ss"}),
    ("A(i,j) = B(i,k) * C(k,j)", {"A": "ss", "B": "ss", "C": "ss"}),
    ("A() = B()", {"A": "", "B": ""}),
    ("A() = B() * C()", {"A": "", "B": "", "C": ""}),
    ("A(i) = B()", {"A": "d", "B": ""}),
]
