"""Engine P child: one fresh interpreter (its own PYTHONHASHSEED) executing one request history
against the real library and CLI.  Reads the history as JSON on stdin, prints one JSON document
of observations on stdout (prefixed '@@')."""

from __future__ import annotations

import hashlib
import json
import os
import sys
import tempfile


def _digest(text: str) -> str:
    return hashlib.blake2b(text.encode(), digest_size=10).hexdigest()


def main():
    src = os.environ.get("TSIM_TENSORA_SRC") or "/repo/src"
    sys.path.insert(0, src)
    history = json.loads(sys.stdin.read())
    out_fd = os.fdopen(os.dup(1), "w")
    os.dup2(2, 1)

    from returns.result import Failure, Success
    from typer.testing import CliRunner

    import tensora
    from tensora import Tensor, tensor_method
    from tensora.cli import app
    from tensora.compile import BackendCompiler, _porcelain, evaluate_cffi, evaluate_tensora
    from tensora.expression import parse_assignment
    from tensora.format import parse_format
    from tensora.generate import Language, generate_code
    from tensora.kernel_type import KernelType
    from tensora.problem import Problem, make_problem

    assert os.path.realpath(os.path.dirname(os.path.dirname(tensora.__file__))) == os.path.realpath(src)
    runner = CliRunner()
    tmpdir = tempfile.mkdtemp(prefix="tsim-p-")
    obs = []
    methods = {}  # id(TensorMethod) -> (object kept alive, first request index)
    flood = [0]

    def mk_problem(assignment, formats):
        pa = parse_assignment(assignment)
        if not isinstance(pa, Success):
            return None, "parse:" + type(pa.failure()).__name__
        fm = {}
        for k, v in formats.items():
            pf = parse_format(v)
            if not isinstance(pf, Success):
                return None, "format:" + type(pf.failure()).__name__
            fm[k] = pf.unwrap()
        pr = make_problem(pa.unwrap(), fm)
        if not isinstance(pr, Success):
            return None, "problem:" + type(pr.failure()).__name__
        return pr.unwrap(), None

    for i, rq in enumerate(history):
        kind = rq["kind"]
        o = {"i": i, "kind": kind, "key": rq.get("key")}
        try:
            if kind == "gen_lib":
                p, why = mk_problem(rq["assignment"], rq["formats"])
                if p is None:
                    o["outcome"] = "refused"
                    o["class"] = why
                else:
                    try:
                        r = generate_code(p, [KernelType[k] for k in rq["kinds"]], Language[rq["lang"]])
                    except Exception as e:
                        o["outcome"] = "refused"
                        o["class"] = "raised:" + type(e).__name__
                    else:
                        if isinstance(r, Failure):
                            o["outcome"] = "refused"
                            o["class"] = "failure:" + type(r.failure()).__name__
                        else:
                            o["outcome"] = "text"
                            o["digest"] = _digest(r.unwrap())
                            o["len"] = len(r.unwrap())
            elif kind == "gen_cli":
                args = [rq["assignment"]]
                for name, f in rq["format_options"]:
                    args += ["-f", f"{name}:{f}"]
                for k in rq["kinds"]:
                    args += ["-t", k]
                args += ["-l", rq["lang"]]
                path = None
                if rq.get("to_file"):
                    path = os.path.join(tmpdir, f"k{i}.txt")
                    args += ["-o", path]
                res = runner.invoke(app, args)
                if res.exit_code == 0:
                    if path is not None:
                        text = open(path).read()
                        if res.stdout.strip() != "":
                            o["stdout_not_empty_with_o"] = True
                    else:
                        text = res.stdout
                        # "prints exactly the text": with or without the one newline echo adds
                        o["digest_raw"] = _digest(text)
                        if text.endswith("\n"):
                            text = text[:-1]
                    o["outcome"] = "text"
                    o["digest"] = _digest(text)
                    o["len"] = len(text)
                else:
                    o["outcome"] = "refused"
                    o["class"] = "exit:" + str(res.exit_code)
                    if res.exception is not None and not isinstance(res.exception, SystemExit):
                        o["class"] = "traceback:" + type(res.exception).__name__
            elif kind == "tm":
                be = BackendCompiler[rq["backend"]]
                try:
                    m = tensor_method(rq["assignment"], dict(rq["formats_items"]), be)
                except Exception as e:
                    o["outcome"] = "refused"
                    o["class"] = "raised:" + type(e).__name__
                else:
                    ident = id(m)
                    if ident not in methods:
                        methods[ident] = (m, i)
                    o["outcome"] = "method"
                    o["same_object_as"] = methods[ident][1]
            elif kind == "tm_private":
                # Problem built directly with the formats in the given order
                fn = getattr(_porcelain, "cachable_tensor_method", None)
                if fn is None:
                    o["outcome"] = "unavailable"
                else:
                    pa = parse_assignment(rq["assignment"])
                    try:
                        p = Problem(pa.unwrap(), {k: parse_format(v).unwrap() for k, v in rq["formats_items"]})
                        m = fn(p, BackendCompiler[rq["backend"]])
                    except Exception as e:
                        o["outcome"] = "refused"
                        o["class"] = "raised:" + type(e).__name__
                    else:
                        ident = id(m)
                        if ident not in methods:
                            methods[ident] = (m, i)
                        o["outcome"] = "method"
                        o["same_object_as"] = methods[ident][1]
            elif kind == "eval":
                fn = evaluate_cffi if rq["backend"] == "cffi" else evaluate_tensora
                try:
                    # building the inputs is part of the request: it must not depend on what the
                    # process did before either
                    kw = {}
                    for name, t in rq["inputs"].items():
                        kw[name] = Tensor.from_aos([tuple(e[0]) for e in t["entries"]],
                                                   [e[1] for e in t["entries"]],
                                                   dimensions=tuple(t["dims"]), format=t["fmt"])
                    r = fn(rq["assignment"], rq["out_format"], **kw)
                except Exception as e:
                    o["outcome"] = "refused"
                    o["class"] = "raised:" + type(e).__name__
                    o["message"] = str(e)[:200]
                else:
                    sys.path.insert(0, os.path.dirname(os.path.dirname(os.path.abspath(__file__))))
                    from tsim.decode import raw_result

                    o["outcome"] = "value"
                    o["digest"] = _digest(repr(raw_result(r)))
            elif kind == "gc":
                import gc

                gc.collect()
                o["outcome"] = "done"
            elif kind == "cache_clear":
                fn = getattr(_porcelain, "cachable_tensor_method", None)
                clr = getattr(fn, "cache_clear", None) or getattr(fn, "clear", None)
                if callable(clr):
                    clr()
                    methods.clear()
                    o["outcome"] = "done"
                else:
                    o["outcome"] = "unavailable"
            elif kind == "evict":
                # flood the LRU kernel cache with throw-away problems
                for k in range(rq["n"]):
                    flood[0] += 1
                    tensor_method(f"z{flood[0]}(i) = q{flood[0]}(i)", {f"z{flood[0]}": "d", f"q{flood[0]}": "d"})
                o["outcome"] = "done"
                try:
                    o["cache_size"] = _porcelain.cachable_tensor_method.cache_info().currsize
                except Exception:
                    o["cache_size"] = 128  # not an lru_cache any more: size unknown
                methods_alive = len(methods)
                o["methods_tracked"] = methods_alive
        except BaseException as e:  # a harness problem, not an observation
            import traceback

            o["outcome"] = "harness_error"
            o["error"] = repr(e)
            o["tb"] = traceback.format_exc()[-1500:]
        obs.append(o)
    try:
        import shutil

        shutil.rmtree(tmpdir, ignore_errors=True)
    except Exception:
        pass
    out_fd.write("@@" + json.dumps(obs) + "\n")
    out_fd.flush()


if __name__ == "__main__":
    main()
