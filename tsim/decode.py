"""Raw reading of a taco_tensor_t and the well-formedness oracle of C02.

Reads the C struct directly (never through Tensor.items()/to_dok()) and, when a
heap model is given, takes array lengths from the block table.
"""

from __future__ import annotations


def _ffi():
    from tensora.compile import tensor_cdefs

    return tensor_cdefs


def addr_of(ptr) -> int:
    return int(_ffi().cast("uintptr_t", ptr))


def header(c):
    order = c.order
    return (
        tuple(c.dimensions[0:order]),
        tuple(int(x) for x in c.mode_types[0:order]),
        tuple(c.mode_ordering[0:order]),
    )


def pointers(c):
    """-> list of (role, address) of the growable arrays the struct points to."""
    ffi = _ffi()
    out = []
    idx = ffi.cast("int32_t***", c.indices)
    for l in range(c.order):
        if int(c.mode_types[l]) == 1:
            out.append((f"pos{l}", addr_of(idx[l][0])))
            out.append((f"crd{l}", addr_of(idx[l][1])))
    out.append(("vals", addr_of(c.vals)))
    return out


def decode(c, heap=None, expect=None):
    """Decode the struct.

    Returns (levels, vals_bytes, nnz, problems).  `levels[l]` is None for a dense level and
    (pos, crd) for a compressed one.  `problems` lists every violated clause of C02 / of the
    'handed back live and long enough' clause of C05 as (oracle, detail...).  With heap=None no
    length can be checked and arrays are read on trust.
    """
    ffi = _ffi()
    problems = []
    dims, mt, mo = header(c)
    if expect is not None:
        if dims != tuple(expect["dims"]):
            problems.append(("dimensions", dims, tuple(expect["dims"])))
        if mt != tuple(expect["mode_types"]):
            problems.append(("mode_types", mt, tuple(expect["mode_types"])))
        if mo != tuple(expect["ordering"]):
            problems.append(("mode_ordering", mo, tuple(expect["ordering"])))
    if sorted(mo) != list(range(c.order)):
        problems.append(("mode_ordering_not_permutation", mo))
        return None, None, None, problems
    idx = ffi.cast("int32_t***", c.indices)
    n = 1
    levels = []
    for l in range(c.order):
        d = dims[mo[l]]
        if mt[l] == 0:
            n *= d
            levels.append(None)
            continue
        pp = addr_of(idx[l][0])
        cp = addr_of(idx[l][1])
        if heap is not None:
            b = heap.block_at(pp)
            if b is None or b.state != "live":
                problems.append(("pos_not_live", l, None if b is None else b.state))
                return None, None, None, problems
            if b.size != 4 * (n + 1):
                problems.append(("pos_length", l, b.size, 4 * (n + 1)))
                if b.size < 4 * (n + 1):
                    return None, None, None, problems
        elif pp == 0:
            problems.append(("pos_null", l))
            return None, None, None, problems
        pos = list(idx[l][0][0 : n + 1])
        if pos[0] != 0:
            problems.append(("pos_first_not_zero", l, pos[0]))
        if any(a > b_ for a, b_ in zip(pos, pos[1:])) or pos[0] < 0:
            problems.append(("pos_decreasing", l, pos[:12]))
            return None, None, None, problems
        m = pos[-1]
        if heap is not None:
            b = heap.block_at(cp)
            if m == 0 and (cp == 0 or (b is not None and b.state == "live")):
                pass
            elif b is None or b.state != "live":
                problems.append(("crd_not_live", l, None if b is None else b.state, m))
                return None, None, None, problems
            elif b.size < 4 * m:
                problems.append(("crd_short", l, b.size, 4 * m))
                return None, None, None, problems
        elif cp == 0 and m > 0:
            problems.append(("crd_null", l))
            return None, None, None, problems
        crd = list(idx[l][1][0:m]) if m > 0 else []
        for s, e in zip(pos, pos[1:]):
            seg = crd[s:e]
            if any(a >= b_ for a, b_ in zip(seg, seg[1:])):
                problems.append(("crd_not_strictly_increasing", l, seg[:12]))
                break
        if any(x < 0 or x >= d for x in crd):
            problems.append(("crd_out_of_range", l, d, [x for x in crd if x < 0 or x >= d][:6]))
        levels.append((pos, crd))
        n = m
    vp = addr_of(c.vals)
    if heap is not None:
        b = heap.block_at(vp)
        if n == 0 and (vp == 0 or (b is not None and b.state == "live")):
            pass
        elif b is None or b.state != "live":
            problems.append(("vals_not_live", None if b is None else b.state, n))
            return levels, None, n, problems
        elif b.size < 8 * n:
            problems.append(("vals_short", b.size, 8 * n))
            return levels, None, n, problems
    elif vp == 0 and n > 0:
        problems.append(("vals_null", n))
        return levels, None, n, problems
    vals = bytes(ffi.buffer(ffi.cast("double*", c.vals), 8 * n)) if n > 0 else b""
    return levels, vals, n, problems


def raw_result(t):
    """Bit-exact, address-free rendering of a Tensor through its raw struct (no heap)."""
    c = t.cffi_tensor
    levels, vals, n, problems = decode(c, None)
    return (header(c), levels, None if vals is None else vals.hex(), problems)
