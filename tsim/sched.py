"""Baton-passing scheduler for simulated caller threads.

The N simulated callers are real threading.Threads; exactly one holds the baton, all others are
parked on private raw locks.  The scheduler alone decides who runs.  Yield points: sys.settrace
line events in an allow-list of files, every simulated-heap call, every acquire/release of a
simulated lock.  In generate mode every decision is drawn from the run's PRNG and recorded as
(thread, thread-local step) -> decision; in replay mode decisions are read from that record.
"""

from __future__ import annotations

import _thread
import gc
import hashlib
import random
import threading
import time


class Abandoned(BaseException):
    pass


class Sched:
    def __init__(self, n, params, seed, replay=None, step_budget=5_000_000):
        self.n = n
        self.params = params
        self.rng = random.Random(seed)
        self.ev = [_thread.allocate_lock() for _ in range(n)]
        for e in self.ev:
            e.acquire()
        self.alive = [True] * n
        self.blocked = [None] * n
        self.cur = None
        self.steps = 0
        self.tstep = [0] * n
        self.switches = 0
        self.gcs = 0
        self.done = _thread.allocate_lock()
        self.done.acquire()
        self.log = hashlib.blake2b(digest_size=8)
        self.decisions = []  # [thread, tstep, kind, arg]
        self.replay = None
        if replay is not None:
            # a thread can take a scheduling decision at a yield point and then block on a lock at the
            # same thread-local step: the two are recorded in different slots
            self.replay = {(d[0], d[1], "b" if d[2] == "blk" else "p"): (d[2], d[3]) for d in replay}
        self.deadlock = None
        self.abandoned = False
        self.budget_exceeded = False
        self.step_budget = step_budget
        self.progress = 0
        self.probes = {}
        self.switch_sites = {}
        self.sig = hashlib.blake2b(digest_size=8)
        self.lock_holders = {}
        self.window_hits = {}
        self.in_window = [None] * n  # per thread: name of the hot window it is in
        self.win_stack = [[] for _ in range(n)]
        self.stalled = False
        strat = params.get("strategy", "coin")
        self.strategy = strat
        self.p_hot = params.get("p_hot", 0.05)
        self.p_cold = params.get("p_cold", 0.0005)
        self.p_gc = params.get("p_gc", 0.0)
        self.change_points = set(params.get("change_points", []))
        self.force_windows = dict(params.get("force_windows", {}))  # window -> remaining forced switches
        self.parked = set()  # PCT-style: threads whose priority was dropped below all others
        self.writes = [0] * n  # per thread: shared-state write lines seen so far
        self.park_at = {int(k): v for k, v in (params.get("park_at") or {}).items()}
        # pct_shared: park a thread right before its k-th access to module-level state that the
        # generation of a kernel was seen to mutate (engine T finds those names per run)
        self.shared_seen = [0] * n
        self.park_at_shared = {int(k): v for k, v in (params.get("park_at_shared") or {}).items()}
        self.on_point = None  # callable(sched, me, label) for run-specific probes
        # engine S turns lock operations off as yield points: whether a compile lock is taken at all
        # depends on what the worker's kernel cache already holds
        self.lock_points = params.get("lock_points", True)

    # ------------------------------------------------------------------ helpers
    @staticmethod
    def tid():
        return getattr(threading.current_thread(), "sim_id", None)

    def runnable(self):
        base = [i for i in range(self.n) if self.alive[i] and self.blocked[i] is None]
        if self.parked:
            awake = [i for i in base if i not in self.parked]
            if awake:
                return awake
            self.parked.clear()  # everybody else finished or is blocked: the parked threads resume
        return base

    def _others_or_wake(self, me):
        """Threads this one can hand the baton to when it parks itself.  If every other live thread
        is itself parked, they are woken (depth-2 parking: A parks at its position, B runs up to its
        own position and parks, A resumes, then B)."""
        others = [i for i in self.runnable() if i != me]
        if not others:
            woken = [i for i in range(self.n) if i != me and i in self.parked and self.alive[i]
                     and self.blocked[i] is None]
            if woken:
                self.parked.clear()
                self.probe("parked_threads_woken_by_a_second_park")
                others = woken
        return others

    def probe(self, k, n=1):
        self.probes[k] = self.probes.get(k, 0) + n

    def _record(self, me, kind, arg):
        self.decisions.append([me, self.tstep[me], kind, arg])

    def _switch_to(self, me, nxt, label):
        if nxt == me:
            return
        self.switches += 1
        self.switch_sites[label] = self.switch_sites.get(label, 0) + 1
        self.sig.update(f"{me}>{nxt}@{label};".encode())
        self.cur = nxt
        self.ev[nxt].release()
        self.ev[me].acquire()
        if self.abandoned:
            raise Abandoned()

    # ------------------------------------------------------------- yield point
    def point(self, label, hot, write=False, shared=False):
        me = self.tid()
        if me is None or me != self.cur or self.abandoned:
            return
        if not self.lock_points and label.startswith("lock."):
            return
        self.steps += 1
        self.progress += 1
        self.tstep[me] += 1
        self.log.update(f"{me}:{label};".encode())
        if self.on_point is not None:
            self.on_point(self, me, label)
        if self.steps > self.step_budget:
            self.budget_exceeded = True
            self._abandon()
            raise Abandoned()
        if self.replay is not None:
            d = self.replay.get((me, self.tstep[me], "p"))
            if d is None:
                return
            kind, arg = d
            if kind == "gc":
                self._gc(me, label)
            elif kind == "park":
                r = self._others_or_wake(me) if self.strategy == "pct_shared" else \
                    [i for i in self.runnable() if i != me]
                if r:
                    self.parked.add(me)
                    self.probe("parked_at_shared_access" if self.strategy == "pct_shared"
                               else "parked_at_shared_write")
                    self._switch_to(me, arg if arg in r else r[0], label)
            elif kind == "sw":
                r = self.runnable()
                if arg in r:
                    self._switch_to(me, arg, label)
                elif r:
                    pass
            return
        # ---- generate mode
        decision = None
        if write:
            self.writes[me] += 1
        if shared:
            self.shared_seen[me] += 1
            self.probe("shared_state_access_lines")
        if self.strategy == "pct_shared":
            if shared and self.park_at_shared.get(me) == self.shared_seen[me]:
                others = self._others_or_wake(me)
                if others:
                    nxt = self.rng.choice(others)
                    self.parked.add(me)
                    self.probe("parked_at_shared_access")
                    self._record(me, "park", nxt)
                    self._switch_to(me, nxt, label)
                return
            if self.rng.random() < self.p_cold:
                decision = ("sw", self.rng.choice(self.runnable()))
        elif self.strategy == "pct_writes":
            # park this thread right before its k-th write to shared state (attribute / global /
            # subscript store in tensora/compile/* or tensor.py) until all others finish or block
            if write and self.park_at.get(me) == self.writes[me]:
                others = [i for i in self.runnable() if i != me]
                if others:
                    nxt = self.rng.choice(others)
                    self.parked.add(me)
                    self.probe("parked_at_shared_write")
                    self._record(me, "park", nxt)
                    self._switch_to(me, nxt, label)
                return
            if hot and self.p_gc and self.rng.random() < self.p_gc:
                decision = ("gc", None)
            elif self.rng.random() < self.p_cold:
                decision = ("sw", self.rng.choice(self.runnable()))
        elif self.strategy == "coin":
            r = self.rng.random()
            if hot and r < self.p_gc:
                decision = ("gc", None)
            elif r < (self.p_hot if hot else self.p_cold):
                decision = ("sw", self.rng.choice(self.runnable()))
        elif self.strategy == "pct":
            if self.steps in self.change_points:
                others = [i for i in self.runnable() if i != me]
                if others:
                    decision = ("sw", self.rng.choice(others))
            elif hot and self.p_gc and self.rng.random() < self.p_gc:
                decision = ("gc", None)
        elif self.strategy == "targeted":
            w = self.in_window[me]
            if w is not None and self.force_windows.get(w, 0) > 0 and hot:
                others = [i for i in self.runnable() if i != me]
                if others and self.rng.random() < 0.5:
                    self.force_windows[w] -= 1
                    decision = ("sw", self.rng.choice(others))
            if decision is None:
                r = self.rng.random()
                if hot and r < self.p_gc:
                    decision = ("gc", None)
                elif r < (self.p_hot if hot else self.p_cold):
                    decision = ("sw", self.rng.choice(self.runnable()))
        if decision is None:
            return
        kind, arg = decision
        if kind == "gc":
            self._record(me, "gc", None)
            self._gc(me, label)
        elif arg != me:
            self._record(me, "sw", arg)
            self._switch_to(me, arg, label)

    def _gc(self, me, label):
        self.gcs += 1
        self.log.update(b"gc;")
        gc.collect()

    # -------------------------------------------------------------- sim locks
    def note_lock(self, lock, acquired):
        me = self.tid()
        if acquired:
            self.lock_holders[id(lock)] = me
        else:
            self.lock_holders.pop(id(lock), None)

    def block_on(self, lock):
        me = self.tid()
        self.blocked[me] = lock
        self.tstep[me] += 1  # every block is a step of its own (a thread can block repeatedly)
        self.probe("lock_contended")
        r = self.runnable()
        if not r:
            self.deadlock = {
                "blocked": {i: self.lock_holders.get(id(self.blocked[i])) for i in range(self.n)
                            if self.alive[i] and self.blocked[i] is not None}}
            self._abandon()
            raise Abandoned()
        if self.replay is not None:
            d = self.replay.get((me, self.tstep[me], "b"))
            nxt = d[1] if d is not None and d[1] in r else r[0]
        else:
            nxt = self.rng.choice(r)
            self._record(me, "blk", nxt)
        self.log.update(f"{me}:blocked>{nxt};".encode())
        self._switch_to(me, nxt, "lock.blocked")

    def unblock(self, lock):
        for i in range(self.n):
            if self.blocked[i] is lock:
                self.blocked[i] = None

    # ------------------------------------------------------------ life cycle
    def start(self):
        if self.replay is not None:
            d = self.replay.get((-1, 0, "p"))
            first = d[1] if d is not None else 0
        else:
            first = self.params.get("first")
            if first is None:
                first = self.rng.randrange(self.n)
            self.decisions.append([-1, 0, "first", first])
        self.cur = first
        self.ev[first].release()

    def finish(self):
        me = self.tid()
        self.alive[me] = False
        self.progress += 1
        if self.abandoned:
            return
        r = self.runnable()
        if r:
            if self.replay is not None:
                d = self.replay.get((me, -1, "p"))
                nxt = d[1] if d is not None and d[1] in r else r[0]
            else:
                nxt = self.rng.choice(r)
                self.decisions.append([me, -1, "fin", nxt])
            self.log.update(f"{me}:fin>{nxt};".encode())
            self.cur = nxt
            self.ev[nxt].release()
        else:
            still = [i for i in range(self.n) if self.alive[i]]
            if still:
                self.deadlock = {
                    "blocked": {i: self.lock_holders.get(id(self.blocked[i])) for i in still}}
                self._abandon()
            else:
                self.cur = None
                self.done.release()

    def _abandon(self):
        """Stop simulating: let every thread run freely to completion."""
        self.abandoned = True
        self.cur = None
        for i in range(self.n):
            self.blocked[i] = None
            try:
                self.ev[i].release()
            except RuntimeError:
                pass
        try:
            self.done.release()
        except RuntimeError:
            pass

    def wait(self, stall_s=90):
        """Wait for the run to finish; a stall (no progress) abandons the run."""
        last = -1
        t_last = time.time()
        while True:
            if self.done.acquire(timeout=1.0):
                return "abandoned" if self.abandoned else "done"
            if self.progress != last:
                last = self.progress
                t_last = time.time()
            elif time.time() - t_last > stall_s:
                self.stalled = True
                self._abandon()
                return "stalled"
