"""bin/selftest determinism [engines]   |   bin/selftest mutants [names]

determinism: the same run seeds are executed (a) in a 16-worker batch, (b) in another 16-worker
batch of fresh interpreters started with a different ambient PYTHONHASHSEED, (c) in an 8-worker
batch, and (d) twice in one serve-mode worker; all event-log digests must agree.

mutants: scratch copy of /repo/src under a fresh mktemp -d (removed afterwards), one seeded defect
at a time; each must be reported by the quick check of its property within the budget and its
replay file must reproduce in a fresh process.
"""

from __future__ import annotations

import json
import os
import shutil
import subprocess
import sys
import tempfile
import time

from . import orchestrate as orch
from .boot import VERIF, ensure_shim_built
from .workload import derive_seed

ENGINE_PROP = {"K": "C05", "S": "C13", "T": "C14", "P": "C15", "G": "C15"}
TIER = os.environ.get("TSIM_SELFTEST_TIER", "quick")


def determinism(engines, n):
    ok = True
    for e in engines:
        prop = ENGINE_PROP[e]
        t0 = time.time()
        runs = []
        for nw, ambient in ((16, "0"), (16, "12345"), (8, "777")):
            os.environ["PYTHONHASHSEED"] = ambient  # the ambient value must not matter
            agg = orch.run_batch(prop, e, TIER, 424242, 3600, max_runs=n, nw=nw)
            runs.append(agg)
            if agg["harness_errors"]:
                print("HARNESS-ERROR", agg["harness_errors"][:2])
                ok = False
        d0 = runs[0]["digests"]
        bad = 0
        for r in runs[1:]:
            for i, d in d0.items():
                if r["digests"].get(i) != d:
                    bad += 1
                    print(f"  DIVERGENCE engine={e} index={i}: {d} vs {r['digests'].get(i)}")
        # twice in one worker (serve mode), per hash-seed bucket
        eng = orch.engine_module(e)
        twice_bad = 0
        checked = 0
        by_bucket = {}
        for i in sorted(d0)[: max(8, n // 4)]:
            seed = derive_seed(424242, prop, i)
            by_bucket.setdefault(seed % 8, []).append((i, seed))
        for b, items in by_bucket.items():
            srv = orch.Serve(e, b, watchdog_s=getattr(eng, "WATCHDOG_S", 60))
            try:
                for i, seed in items:
                    plan = eng.gen_plan(seed, {"prop": prop, "tier": TIER, "batch_seed": 424242})
                    r1 = srv.run(json.loads(json.dumps(plan)))
                    r2 = srv.run(json.loads(json.dumps(plan)))
                    checked += 1
                    if r1.get("digest") != d0[i] or r2.get("digest") != d0[i]:
                        twice_bad += 1
                        print(f"  DIVERGENCE(serve) engine={e} index={i}: batch={d0[i]} "
                              f"serve1={r1.get('digest')} serve2={r2.get('digest')}")
            finally:
                srv.close()
        print(f"determinism engine={e}: {len(d0)} seeds x 3 batches (16/16/8 workers, 3 ambient hash "
              f"seeds) + {checked} seeds twice in one worker: {bad + twice_bad} divergences "
              f"({time.time() - t0:.0f}s)")
        ok = ok and bad == 0 and twice_bad == 0
    return 0 if ok else 1


# ------------------------------------------------------------------------------- mutants
def _sub(path, old, new, count=1):
    def apply(root):
        p = os.path.join(root, "tensora", path)
        s = open(p).read()
        if old not in s:
            raise RuntimeError(f"mutant does not apply: {path}: {old[:60]!r}")
        open(p, "w").write(s.replace(old, new, count))

    return apply


MUTANTS = {
    # ---- C02 / C05 (engine K)
    "crd_capacity_off_by_one": ("C05", _sub(
        "iteration_graph/_write_sparse_ir.py",
        "with source.branch(GreaterThanOrEqual(pointer, capacity)):",
        "with source.branch(GreaterThanOrEqual(pointer, capacity.plus(1))):")),
    "pos_final_shrink_dropped": ("C02", _sub(
        "iteration_graph/outputs/_append.py",
        "                    if not all_dense:\n                        # If any previous layer was compressed, pos was allocated with a guessed",
        "                    if False:\n                        # If any previous layer was compressed, pos was allocated with a guessed")),
    "pos_first_entry_not_written": ("C02", _sub(
        "iteration_graph/outputs/_append.py",
        "                    source.append(pos_array.idx(0).assign(0))\n", "")),
    "doubling_replaced_by_plus_one_never_enough": ("C05", _sub(
        "iteration_graph/_write_sparse_ir.py",
        "            source.append(capacity.assign(Max(capacity.times(2), minimum_capacity)))",
        "            source.append(capacity.assign(capacity.times(2)))")),
    "vals_scratch_slot_dropped": ("C05", _sub(
        "iteration_graph/outputs/_append.py",
        "                    padded_size = final_size.plus(1)", "                    padded_size = final_size")),
    # a read one element past the end of an input's crd array whose value influences nothing (the
    # bounds test comes second in the loop condition): invisible to red zones and garbage twins,
    # found by the guard-page placement of the simulated heap
    "crd_read_before_bounds_check": ("C05", lambda root: (
        _sub("iteration_graph/_generate_ir.py", "from ..ir.ast import (\n", "from ..ir.ast import (\n    GreaterThanOrEqual,\n")(root),
        _sub("iteration_graph/_generate_ir.py",
             "            while_criteria = And.join(\n                [\n                    LessThan(leaf.layer_pointer(), leaf.sparse_end_name())",
             "            while_criteria = And.join(\n                [\n                    GreaterThanOrEqual(leaf.crd_name().idx(leaf.layer_pointer()), IntegerLiteral(0))\n                    for leaf in sparse_subnode_leaves\n                ]\n                + [\n                    LessThan(leaf.layer_pointer(), leaf.sparse_end_name())")(root))),
    # ---- C04
    "bucket_not_zeroed": ("C04", _sub(
        "iteration_graph/outputs/_bucket.py",
        "            source.append(self.name().idx(bucket_loop_index).assign(0))\n", "")),
    "written_flag_not_raised_in_compute": ("C04", _sub(
        "iteration_graph/_generate_ir.py",
        "    if self.expression != Integer(0):\n        for flag in output.written_flags():",
        "    if self.expression != Integer(0) and kernel_type.is_assemble():\n        for flag in output.written_flags():")),
    "assemble_sizes_vals_without_dense_tail": ("C04", _sub(
        "iteration_graph/outputs/_append.py",
        "                    padded_size = padded_size.times(dimension)",
        "                    padded_size = padded_size")),
    # ---- C13 (engine S)
    "vals_handover_dropped": ("C13", _sub(
        "compile/_cffi_ownership.py",
        '    memory_holder["vals"] = tensor_cdefs.gc(cffi_tensor.vals, tensor_lib.free)\n\n\ndef take_ownership_of_tensor_members',
        '    pass\n\n\ndef take_ownership_of_tensor_members')),
    "gc_handle_not_retained": ("C13", _sub(
        "compile/_cffi_ownership.py",
        '    memory_holder["vals"] = tensor_cdefs.gc(cffi_tensor.vals, tensor_lib.free)\n\n\ndef take_ownership_of_tensor_members',
        '    tensor_cdefs.gc(cffi_tensor.vals, tensor_lib.free)\n\n\ndef take_ownership_of_tensor_members')),
    "output_kept_on_cached_method": ("C13", _sub(
        "compile/_tensor_method.py",
        "        take_ownership_of_arrays(cffi_output)\n",
        "        take_ownership_of_arrays(cffi_output)\n        self._last_output = output\n")),
    "handover_done_twice": ("C13", _sub(
        "compile/_cffi_ownership.py",
        '    memory_holder["vals"] = tensor_cdefs.gc(cffi_tensor.vals, tensor_lib.free)\n\n\ndef take_ownership_of_tensor_members',
        '    memory_holder["vals"] = tensor_cdefs.gc(cffi_tensor.vals, tensor_lib.free)\n    memory_holder["vals_again"] = tensor_cdefs.gc(cffi_tensor.vals, tensor_lib.free)\n\n\ndef take_ownership_of_tensor_members')),
    # ---- C14 (engine T)
    "compile_lock_removed": ("C14", _sub(
        "compile/_compile_cffi.py", "        with lock:", "        if True:")),
    "per_call_state_on_cached_method": ("C14", _sub(
        "compile/_tensor_method.py",
        "        output = Tensor(cffi_output)\n\n        all_arguments = {self._output_name: output, **bound_arguments}\n\n        cffi_args = [all_arguments[name].cffi_tensor for name in self._problem.formats.keys()]\n\n        return_value = self._evaluate(*cffi_args)\n\n        take_ownership_of_arrays(cffi_output)\n",
        "        self._out = Tensor(cffi_output)\n\n        all_arguments = {self._output_name: self._out, **bound_arguments}\n\n        cffi_args = [all_arguments[name].cffi_tensor for name in self._problem.formats.keys()]\n\n        return_value = self._evaluate(*cffi_args)\n\n        output = self._out\n        take_ownership_of_arrays(output.cffi_tensor)\n")),
    # ---- C15 (engine P)
    "problem_eq_ignores_mode_ordering": ("C15", lambda root: (
        _sub("problem.py",
             "            return self.assignment == other.assignment and tuple(self.formats.items()) == tuple(\n                other.formats.items()\n            )",
             "            return self.assignment == other.assignment and tuple(\n                (n, f.modes) for n, f in self.formats.items()\n            ) == tuple((n, f.modes) for n, f in other.formats.items())")(root),
        _sub("problem.py", "        return hash((self.assignment, tuple(self.formats.items())))",
             "        return hash((self.assignment, tuple((n, f.modes) for n, f in self.formats.items())))")(root))),
    "stable_set_iterates_in_hash_order": ("C15", _sub(
        "_stable_set.py",
        "    def __iter__(self) -> Iterator[Element]:\n        return iter(self._items)\n\n    def __reversed__(self):\n        return StableFrozenSet(",
        "    def __iter__(self) -> Iterator[Element]:\n        return iter(self._set)\n\n    def __reversed__(self):\n        return StableFrozenSet(")),
    "cli_default_format_compressed": ("C15", _sub(
        "cli.py", "    match make_problem(parsed_assignment, parsed_formats):",
        "    for _n, _o in parsed_assignment.variable_orders().items():\n        if _n not in parsed_formats and _o == 1:\n            from .format import parse_format as _pf\n            parsed_formats[_n] = _pf('s').unwrap()\n    match make_problem(parsed_assignment, parsed_formats):")),
    "cache_keyed_by_assignment_and_backend_only": ("C15", lambda root: (
        _sub("problem.py", "        return hash((self.assignment, tuple(self.formats.items())))",
             "        return hash(self.assignment)")(root),
        _sub("problem.py",
             "            return self.assignment == other.assignment and tuple(self.formats.items()) == tuple(\n                other.formats.items()\n            )",
             "            return self.assignment == other.assignment")(root))),
}


def mutants(names, budget_s=45):
    names = names or list(MUTANTS)
    results = {}
    for name in names:
        prop, apply = MUTANTS[name]
        scratch = tempfile.mkdtemp(prefix="tsim-mutant-")
        t0 = time.time()
        try:
            shutil.copytree(os.path.join(os.environ.get("TSIM_REPO", "/repo"), "src"), os.path.join(scratch, "src"))
            apply(os.path.join(scratch, "src"))
            env = dict(os.environ, TSIM_TENSORA_SRC=os.path.join(scratch, "src"), TSIM_STOP_AT_FIRST="1",
                       TSIM_BUDGET_S=str(budget_s), TSIM_NO_EVIDENCE="1", VERIF_SEED=os.environ.get("VERIF_SEED", "0"))
            p = subprocess.run([os.path.join(VERIF, "bin", "check"), prop, "quick"], env=env,
                               capture_output=True, text=True, cwd=VERIF)
            lines = [l for l in p.stdout.splitlines() if l.startswith("VIOLATION ")]
            caught = p.returncode == 1 and bool(lines)
            replay_ok = None
            oracle = None
            if caught:
                path = lines[0].split("replay=")[1].strip()
                oracle = json.load(open(path)).get("oracle")
                r = subprocess.run([os.path.join(VERIF, "bin", "check"), prop, "--replay", path], env=env,
                                   capture_output=True, text=True, cwd=VERIF)
                replay_ok = r.returncode == 1 and "VIOLATION " in r.stdout
                # and the same replay file must NOT fail on the unmutated tree
                env2 = dict(env)
                env2.pop("TSIM_TENSORA_SRC")
                r2 = subprocess.run([os.path.join(VERIF, "bin", "check"), prop, "--replay", path], env=env2,
                                    capture_output=True, text=True, cwd=VERIF)
                clean_ok = r2.returncode == 0
                for l in lines:
                    try:
                        os.remove(l.split("replay=")[1].strip())
                    except OSError:
                        pass
            else:
                clean_ok = None
            results[name] = (prop, caught, replay_ok, clean_ok, oracle, round(time.time() - t0))
            print(f"mutant {name:45s} {prop} caught={caught} replay_reproduces={replay_ok} "
                  f"replay_clean_on_unmutated_tree={clean_ok} oracle={oracle} ({time.time() - t0:.0f}s)",
                  flush=True)
            if not caught:
                print("   ", p.stdout[-600:].replace("\n", "\n    "))
        finally:
            shutil.rmtree(scratch, ignore_errors=True)
    missed = [n for n, r in results.items() if not r[1] or not r[2]]
    print(f"mutants: {len(results) - len(missed)}/{len(results)} caught and replayed; missed: {missed}")
    return 0 if not missed else 1


def seeded(names, budget_s=60):
    """Run the registered checks against every kept breaking change in /verif/seeded/<id>/."""
    root = os.path.join(VERIF, "seeded")
    names = names or sorted(d for d in os.listdir(root) if os.path.exists(os.path.join(root, d, "meta.json")))
    summary = {}
    for name in names:
        meta = json.load(open(os.path.join(root, name, "meta.json")))
        scratch = tempfile.mkdtemp(prefix="tsim-seeded-")
        try:
            shutil.copytree(os.path.join(os.environ.get("TSIM_REPO", "/repo"), "src"), os.path.join(scratch, "src"))
            r = subprocess.run(["patch", "-p1", "-s", "-i", os.path.join(root, name, "patch.diff")],
                               cwd=scratch, capture_output=True, text=True)
            if r.returncode != 0:
                print(f"seeded {name}: patch does not apply: {r.stdout} {r.stderr}")
                summary[name] = "patch-failed"
                continue
            also = [a.split()[0] for a in meta.get("also_affects", [])]
            props = os.environ.get("TSIM_SEEDED_PROPS", "").split() or (
                meta["breaks"] + [a for a in also if a in orch.PROPS and a not in meta["breaks"]])
            res = {}
            for prop in props:
                if prop not in orch.PROPS:
                    res[prop] = "not-claimed"
                    continue
                t0 = time.time()
                env = dict(os.environ, TSIM_TENSORA_SRC=os.path.join(scratch, "src"),
                           TSIM_BUDGET_S=str(budget_s), TSIM_NO_EVIDENCE="1", TSIM_STOP_AT_FIRST="1",
                           VERIF_SEED=os.environ.get("VERIF_SEED", "0"))
                p = subprocess.run([os.path.join(VERIF, "bin", "check"), prop, "quick"], env=env,
                                   capture_output=True, text=True, cwd=VERIF)
                lines = [l for l in p.stdout.splitlines() if l.startswith("VIOLATION ")]
                detail = [l.strip() for l in p.stdout.splitlines() if l.strip().startswith("oracle=")][:1]
                replay_ok = None
                if p.returncode == 1 and lines:
                    path = lines[0].split("replay=")[1].strip()
                    rr = subprocess.run([os.path.join(VERIF, "bin", "check"), prop, "--replay", path],
                                        env=env, capture_output=True, text=True, cwd=VERIF)
                    replay_ok = rr.returncode == 1
                    for l in lines:
                        try:
                            os.remove(l.split("replay=")[1].strip())
                        except OSError:
                            pass
                res[prop] = {"exit": p.returncode, "caught": p.returncode == 1 and bool(lines),
                             "replay_reproduces": replay_ok, "first": detail, "s": round(time.time() - t0)}
                print(f"seeded {name:32s} {prop}: caught={res[prop]['caught']} exit={p.returncode} "
                      f"replay={replay_ok} {detail} ({time.time() - t0:.0f}s)", flush=True)
                if p.returncode not in (0, 1):
                    print("    ", p.stdout[-800:].replace("\n", "\n     "))
            summary[name] = res
        finally:
            shutil.rmtree(scratch, ignore_errors=True)
    missed = [n for n, r in summary.items() if not isinstance(r, dict) or not any(
        isinstance(v, dict) and v["caught"] for v in r.values())]
    print(f"seeded: {len(summary) - len(missed)}/{len(summary)} caught; missed: {missed}")
    return 0 if not missed else 1


def legal(names, budget_s=55):
    """Negative controls: behaviour-preserving refactorings under /verif/seeded/legal/<id>/; the quick
    checks listed in their meta.json must exit 0 on them."""
    root = os.path.join(VERIF, "seeded", "legal")
    names = names or sorted(os.listdir(root))
    bad = []
    for name in names:
        meta = json.load(open(os.path.join(root, name, "meta.json")))
        scratch = tempfile.mkdtemp(prefix="tsim-legal-")
        try:
            shutil.copytree(os.path.join(os.environ.get("TSIM_REPO", "/repo"), "src"), os.path.join(scratch, "src"))
            r = subprocess.run(["patch", "-p1", "-s", "-i", os.path.join(root, name, "patch.diff")],
                               cwd=scratch, capture_output=True, text=True)
            if r.returncode != 0:
                print(f"legal {name}: patch does not apply")
                bad.append(name)
                continue
            for prop in meta["checks"]:
                env = dict(os.environ, TSIM_TENSORA_SRC=os.path.join(scratch, "src"), TSIM_NO_EVIDENCE="1",
                           VERIF_SEED=os.environ.get("VERIF_SEED", "0"))
                p = subprocess.run([os.path.join(VERIF, "bin", "check"), prop, "quick"], env=env,
                                   capture_output=True, text=True, cwd=VERIF)
                print(f"legal {name:8s} {prop}: exit={p.returncode}", flush=True)
                if p.returncode != 0:
                    bad.append(f"{name}/{prop}")
                    print("    ", p.stdout[-600:].replace("\n", "\n     "))
        finally:
            shutil.rmtree(scratch, ignore_errors=True)
    print(f"legal: alarms on {bad}" if bad else "legal: no alarm on any negative control")
    return 1 if bad else 0


def main(argv=None):
    argv = list(sys.argv[1:] if argv is None else argv)
    ensure_shim_built()
    if not argv:
        print(__doc__)
        return 2
    if argv[0] == "determinism":
        engines = [a for a in argv[1:] if a in ENGINE_PROP] or list(ENGINE_PROP)
        n = int(os.environ.get("TSIM_SELFTEST_N", "200"))
        return determinism(engines, n)
    if argv[0] == "seeded":
        return seeded(argv[1:], int(os.environ.get("TSIM_SEEDED_BUDGET_S", "60")))
    if argv[0] == "legal":
        return legal(argv[1:])
    if argv[0] == "mutants":
        return mutants(argv[1:], int(os.environ.get("TSIM_MUTANT_BUDGET_S", "45")))
    print(__doc__)
    return 2


if __name__ == "__main__":
    sys.exit(main())
