"""bin/check <property> {quick|thorough}  |  bin/check <property> --replay <file>"""

from __future__ import annotations

import json
import os
import sys
import time

from . import orchestrate as orch
from .boot import VERIF, ensure_shim_built
from .workload import derive_seed


def _class_key(prop, v):
    return (prop, v["oracle"])


def write_evidence(prop, tier, seed, aggs, violations, known_hits, wall, extra_assumptions=()):
    spec = orch.PROPS[prop]
    evaluations = sum(a["runs"] for a in aggs)
    executed = sum(a["ok"] for a in aggs) + sum(len(a["violations"]) for a in aggs)
    distinct = 0
    rules = []
    samples = []
    per_engine = {}
    for a in aggs:
        eng = orch.engine_module(a["engine"])
        if hasattr(eng, "distinct_nontrivial"):
            distinct += eng.distinct_nontrivial(a)
        else:
            distinct += sum(1 for s, (n, nt) in a["shapes"].items() if nt)
        rules.append(f"[engine {a['engine']}] {eng.RULE}")
        samples += a["samples"][:4]
        hours = max(a["elapsed"], 1e-9) / 3600.0
        per_engine[a["engine"]] = {
            "runs": a["runs"], "ok": a["ok"], "skipped": a["skipped"],
            "inconclusive": a["inconclusive"],
            "violating_runs": len(a["violations"]),
            "harness_errors": len(a["harness_errors"]),
            "runs_per_hour": int(a["runs"] / hours),
            "worker_cpu_s": round(a["wall"], 1),
            "simulated_steps": a["steps"],
            "faults_fired": a["stats"],
            "reach_probes": a["probes"],
            "distinct_cases_total": len(a["shapes"]),
            "worker_restarts": a["worker_restarts"],
            "crash_candidates": len(a["crash_candidates"]),
            "unconfirmed_crashes": a.get("unconfirmed_crashes", []),
            # run indexes [0, floor) are explored whatever the load; beyond that the wall budget decides
            "deterministic_floor_index": a.get("floor_index", 0),
            "floor_indexes_not_finished": sum(1 for i in range(a.get("floor_index", 0))
                                              if i not in a["digests"]),
        }
        if hasattr(eng, "summarise_extra"):
            per_engine[a["engine"]].update(eng.summarise_extra(a))
    ev = {
        "property_id": prop,
        "tier": tier,
        "seed": seed,
        "level": spec["level"],
        "coverage": {
            "evaluations": evaluations,
            "executed_runs": executed,
            "distinct_nontrivial": distinct,
            "rule": " ".join(rules),
            "samples": samples or [{"note": "no run completed"}],
            "engines": per_engine,
            "simulated_time_note": "tensora has no clock; simulated time is reported as "
                                   "scheduler steps and heap events (faults_fired), not seconds",
            "real_vs_stub": REAL_VS_STUB,
            "known_findings_reobserved": known_hits,
        },
        "assumptions": list(ASSUMPTIONS.get(prop, [])) + list(extra_assumptions),
        "wall_s": round(wall, 2),
        "violations": len(violations),
    }
    os.makedirs(os.path.join(VERIF, "evidence"), exist_ok=True)
    path = os.path.join(VERIF, "evidence", f"{prop}.json")
    tmp = path + ".tmp"
    json.dump(ev, open(tmp, "w"), indent=1, default=repr)
    os.replace(tmp, path)
    return ev


REAL_VS_STUB = {
    "real": ["all of tensora from /repo/src (parser, desugar, iteration graphs, IR, peephole, "
             "both code generators, TensorMethod, Tensor, ownership, kernel cache, CLI)",
             "llvmlite MCJIT and the generated machine code", "cffi + gcc for the C back end",
             "CPython reference counting, weakrefs, ffi.gc destructors"],
    "simulated": ["malloc/calloc/realloc seen by kernels and free() of arena addresses (simulated heap)",
                  "which caller thread runs when (baton scheduler, engine T)",
                  "module-level locks created by tensora (dual-mode wrapper, engine T)",
                  "cyclic GC trigger (disabled + injected)",
                  "PYTHONHASHSEED, request order, cache clears/evictions (chosen by the plan)",
                  "initial array capacity (chosen by the plan)"],
    "absent_in_tensora": ["time, network, disk"],
}
ASSUMPTIONS = {
    "C02": ["program x format x input space is sampled by a seeded generator, not enumerated",
            "kernels are observed through the LLVM back end (the one evaluate uses)"],
    "C04": ["decided on the LLVM lowering of the three kernels generated in one module",
            "the oracle is relative to evaluate (it never asks whether evaluate is right)"],
    "C05": ["reads of uninitialised cells INSIDE a block that influence nothing observable are not detected "
            "(out-of-block and stale-pointer accesses are, on the guard-page share of the runs)",
            "signed 32-bit overflow is trapped only on the share of runs compiled from C text",
            "termination is a wall-clock watchdog per run"],
    "C13": ["immediacy of release is not demanded, only 'not before the last reference and at the "
            "latest at the next collection'"],
    "C14": ["two kernels never execute machine code truly in parallel; pre-emption inside a kernel "
            "happens at its heap calls only"],
    "C15": ["refused requests are compared by outcome class, not by message text"],
}


def main(argv=None):
    argv = list(sys.argv[1:] if argv is None else argv)
    if not argv:
        print("usage: check <property> quick|thorough | check <property> --replay <file>")
        return 2
    prop = argv[0]
    if prop not in orch.PROPS:
        print(f"unknown or unclaimed property {prop}")
        return 2
    ensure_shim_built()
    if len(argv) >= 3 and argv[1] == "--replay":
        return replay(prop, argv[2])
    tier = os.environ.get("VERIF_TIER") or (argv[1] if len(argv) > 1 else "quick")
    if tier not in ("quick", "thorough"):
        tier = "quick"
    seed = int(os.environ.get("VERIF_SEED", "0") or 0)
    spec = orch.PROPS[prop]
    budget = float(os.environ.get("TSIM_BUDGET_S") or spec[f"{tier}_s"])
    max_runs = os.environ.get("TSIM_MAX_RUNS")
    max_runs = int(max_runs) if max_runs else None
    t0 = time.time()
    print(f"check {prop} tier={tier} VERIF_SEED={seed} budget={budget:.0f}s engines={spec['engines']}",
          flush=True)
    engines = spec["engines"]
    available = [e for e in engines if _engine_available(e)]
    aggs = []
    found = []
    others = []
    harness_errors = []
    for e in available:
        w = spec.get("weights") or {}
        share = budget * w[e] / sum(w[x] for x in available) if all(x in w for x in available) \
            else budget / len(available)
        agg = orch.run_batch(prop, e, tier, seed, share, max_runs)
        confirmed = orch.confirm_crashes(e, prop, seed, agg, tier=tier)
        agg["violations"] += confirmed
        agg["violations"] += orch.confirm_boot_crash(e, prop, agg)
        eng_mod = orch.engine_module(e)
        if hasattr(eng_mod, "cross_check"):
            agg["violations"] += eng_mod.cross_check(agg)
        aggs.append(agg)
        harness_errors += agg["harness_errors"]
        for rec in agg["violations"]:
            mine = [v for v in rec["violations"] if prop in v["properties"]]
            if mine:
                found.append((e, rec, mine))
            else:
                # belongs to another property's check; never silently dropped
                others.append({"engine": e, "run_seed": rec["seed"], "index": rec["i"],
                               "properties": sorted({p for v in rec["violations"] for p in v["properties"]}),
                               "oracles": sorted({v["oracle"] for v in rec["violations"]})})
        print(f"  engine {e}: runs={agg['runs']} ok={agg['ok']} skipped={sum(agg['skipped'].values())} "
              f"violating={len(agg['violations'])} harness_errors={len(agg['harness_errors'])} "
              f"elapsed={agg['elapsed']:.1f}s", flush=True)

    known = orch.load_known()
    known_hits = []
    new = []
    seen_classes = set()
    for e, rec, mine in found:
        eng = orch.engine_module(e)
        v = mine[0]
        fp = (eng.fingerprint(rec["plan"], v) if rec["plan"] and not rec["plan"].get("warmup_only")
              else v["oracle"] + " @ " + str(v.get("phase")))
        hit = None
        for k in known:
            if k.get("status", "open") == "open" and k["property"] == prop and k["fingerprint"] == fp:
                hit = k
        if hit:
            if fp not in known_hits:
                known_hits.append(fp)
                print(f"KNOWN-FINDING: property={prop} {hit.get('what', fp)}")
            continue
        ck = (e, v["oracle"], fp)
        if ck in seen_classes:
            continue
        seen_classes.add(ck)
        new.append((e, rec, v, fp))

    reported = []
    for n, (e, rec, v, fp) in enumerate(new[:5]):
        plan = rec["plan"]
        tried = 0
        if plan is not None and not plan.get("warmup_only") and n < (3 if tier == "thorough" else 2) \
                and hasattr(orch.engine_module(e), "shrink_candidates"):
            try:
                fast = bool(os.environ.get("TSIM_STOP_AT_FIRST"))
                plan, tried = orch.minimise(e, plan, (prop, v["oracle"]),
                                            budget=20 if fast else 400 if tier == "thorough" else 150,
                                            wall_s=15 if fast else 300 if tier == "thorough" else 45)
            except Exception as ex:
                print(f"  (minimisation failed: {ex!r})")
                plan = rec["plan"]
        path = os.path.join(VERIF, "replays", f"{prop}-{rec['seed']}.json")
        os.makedirs(os.path.dirname(path), exist_ok=True)
        json.dump({"property": prop, "engine": e, "oracle": v["oracle"], "fingerprint": fp,
                   "violation": v, "batch_seed": seed, "index": rec["i"], "run_seed": rec["seed"],
                   "minimisation_replays": tried, "plan": plan, "original_plan": rec["plan"]},
                  open(path, "w"), indent=1, default=repr)
        print(f"VIOLATION property={prop} replay={path}")
        print(f"  oracle={v['oracle']} phase={v.get('phase')} detail={json.dumps(v.get('detail'))[:300]}")
        print(f"  case: {fp}")
        reported.append(path)
    for e, rec, v, fp in new[5:]:
        print(f"  (further violation not minimised: {fp})")

    for o in others[:5]:
        print(f"  note: run {o['run_seed']} (engine {o['engine']}) violated {','.join(o['properties']) or 'no claimed property'} "
              f"[{', '.join(o['oracles'])}] - not a statement of {prop}; the check of that property reports it")
    wall = time.time() - t0
    if aggs and not os.environ.get("TSIM_NO_EVIDENCE"):
        write_evidence(prop, tier, seed, aggs, reported, known_hits, wall,
                       extra_assumptions=[f"violations of other properties seen in this batch: {len(others)}"] if others else ())
    total_runs = sum(a["runs"] for a in aggs)
    inconclusive = sum(a["inconclusive"] for a in aggs)
    print(f"check {prop}: {total_runs} runs, {len(reported)} violation(s), "
          f"{len(known_hits)} known finding(s), {len(harness_errors)} harness error(s), {wall:.1f}s")
    if reported:
        return 1
    if harness_errors:
        for h in harness_errors[:3]:
            print("HARNESS-ERROR:", h.get("error"), (h.get("tb") or "")[-1500:])
        return 2
    if total_runs == 0 or inconclusive * 2 > total_runs:
        print("HARNESS-ERROR: no conclusive runs")
        return 2
    return 0


def _engine_available(e):
    try:
        orch.engine_module(e)
        return True
    except ImportError:
        return False


def replay(prop, path):
    rp = json.load(open(path))
    e = rp["engine"]
    plan = rp["plan"]
    srv = orch.Serve(e, plan.get("hashseed", 0))
    try:
        try:
            res = orch.result_with_crash(e, srv.run(plan))
        except RuntimeError as ex:
            if not plan.get("warmup_only") or "'rc': -" not in str(ex):
                raise
            # the replay server itself was killed by a signal while warming up
            res = orch.result_with_crash(e, {"verdict": "crash", "how": str(ex)[:200], "phase": "warmup",
                                             "violations": []})
    finally:
        srv.close()
    want = (rp["property"], rp["oracle"])
    if orch.matches(res, want):
        v = [x for x in res["violations"] if x["oracle"] == rp["oracle"]][0]
        print(f"VIOLATION property={rp['property']} replay={path}")
        print(f"  reproduced: oracle={v['oracle']} phase={v.get('phase')} detail={json.dumps(v.get('detail'))[:300]}")
        return 1
    if res.get("verdict") == "harness_error":
        print("HARNESS-ERROR:", res.get("error"), res.get("tb"))
        return 2
    print(f"replay {path}: violation {want} NOT reproduced (verdict={res.get('verdict')}, "
          f"violations={[x['oracle'] for x in res.get('violations', [])]})")
    return 0


if __name__ == "__main__":
    sys.exit(main())
