"""Engine T: N simulated caller threads over the real evaluate / evaluate_cffi / tensor_method,
the real kernel cache, JIT and gcc, under the baton scheduler, simulated locks, simulated heap
and injected GC.

Oracle: every concurrent call returns bit for bit what the same call returned alone; no other
exception, no deadlock, no crash; heap invariants; every block a call's kernel allocated ends up
in that call's output and nobody else's; nothing is live after all results are dropped.
"""

from __future__ import annotations

import gc
import hashlib
import json
import os
import random
import sys
import threading

from .. import decode as dec
from ..boot import SIM, clear_kernel_cache, rearm_watchdog, set_capacity
from ..sched import Abandoned, Sched

NAME = "T"
WATCHDOG_S = 240

# (assignment template, output format, {param: shared tensor key})
CATALOG = [
    ("{o}(i) = A(i,j) * x(j)", "s", {"A": "A", "x": "x"}),
    ("{o}(i) = A(i,j) * x(j)", "d", {"A": "A", "x": "x"}),
    ("{o}(i,j) = A(i,j) + B(i,j)", "ds", {"A": "A", "B": "B"}),
    ("{o}(i,j) = A(i,k) * C(k,j)", "ss", {"A": "A", "C": "C"}),
    ("{o}() = A(i,j) * B(i,j)", "", {"A": "A", "B": "B"}),
    ("{o}(j,i) = A(i,j)", "d1s0", {"A": "A"}),
    ("{o}(i,j) = A(i,j) * B(i,j)", "ss", {"A": "A", "B": "B"}),
    ("{o}(i) = x(i) + y(i)", "s", {"x": "x", "y": "y"}),
    ("{o}(i,j,k) = T(i,j,k)", "sss", {"T": "T"}),
    ("{o}(i,j) = A(i,j) - D(i,j)", "dd", {"A": "A", "D": "D"}),
    ("{o}(i,j) = A(i,j)", "ss", {"A": "D"}),
    ("{o}(i) = y(i) * y(i)", "s", {"y": "y"}),
    # one tensor mentioned more than once with different indexes (C is square in every variant and
    # x fits it): kernels whose generation has per-mention state
    ("{o}(i) = C(i,j) * x(j) + x(i)", "d", {"C": "C", "x": "x"}),
    ("{o}(i,j) = C(i,j) + C(i,k) * C(k,j)", "dd", {"C": "C"}),
    ("{o}() = x(i) * C(i,j) * x(j)", "", {"C": "C", "x": "x"}),
    # arithmetic operators of Tensor (they evaluate an assignment of their own); the scalar operand
    # differs between the argument variants
    ("op:mul_scalar", None, {"a": "A"}),
    ("op:radd_scalar", None, {"a": "x"}),
    ("op:sub_scalar", None, {"a": "y"}),
    ("op:add", None, {"a": "A", "b": "B"}),
    ("op:matmul", None, {"a": "A", "b": "C"}),
    # nested far deeper than the parser's recursion budget allows: refused alone, so refused in company
    ("{o}(i) = " + "(" * 120 + "x(i)" + " + x(i))" * 120, "d", {"x": "x"}),
]
SCALARS = [2.0, 3.0, -1.5]
REPEATED = (12, 13, 14)
SINGLE_OPERAND = (5, 8, 10)
SHARED = {"A": ((3, 3), "ds"), "B": ((3, 3), "ds"), "C": ((3, 3), "d1s0"), "D": ((3, 3), "dd"),
          "x": ((3,), "d"), "y": ((3,), "s"), "T": ((2, 2, 2), "sss")}
# argument sets of different dimensions: concurrent calls of one cached method get different ones
VARIANTS = [
    {"A": (3, 3), "B": (3, 3), "C": (3, 3), "D": (3, 3), "x": (3,), "y": (3,), "T": (2, 2, 2)},
    {"A": (2, 4), "B": (2, 4), "C": (4, 4), "D": (2, 4), "x": (4,), "y": (4,), "T": (3, 2, 2)},
    {"A": (5, 2), "B": (5, 2), "C": (2, 2), "D": (5, 2), "x": (2,), "y": (2,), "T": (2, 3, 2)},
]
ENTRY_POINTS = ["evaluate", "tensor_method"]
WINDOWS = {
    # window name -> (file suffix, function name)
    "method_init": ("compile/_tensor_method.py", "__init__"),
    "method_call": ("compile/_tensor_method.py", "__call__"),
    "allocate_structure": ("compile/_cffi_ownership.py", "allocate_taco_structure"),
    "take_ownership": ("compile/_cffi_ownership.py", "take_ownership_of_arrays"),
    "compile_evaluate": ("compile/_compile_cffi.py", "compile_evaluate"),
    "compile_module": ("compile/_compile_llvm.py", "compile_module"),
    "cffi_recompile": ("cffi/recompiler.py", None),
    "cffi_platform": ("cffi/ffiplatform.py", None),
}
RULE = (
    "Each evaluation is one simulated concurrent run: N in {2,3,4} (thorough up to 8) caller "
    "threads, 1-4 calls each, over 1-4 distinct problems from a 12-entry catalogue with per-run "
    "fresh output names (so an un-warmed problem really misses the cache), several threads "
    "sharing the same problem (same cached TensorMethod), each call with one of up to three "
    "argument sets of different dimensions (3x3 / 2x4 / 5x2 ...), entry points "
    "evaluate / evaluate_cffi / tensor_method, a seeded pre-warmed subset, back end llvm (quick "
    "~88%) or cffi; schedule strategies: weighted coin, PCT-style change points, targeted windows, "
    "parking before the k-th shared-state write; 3-5% park sweeps (every k), 10% generation-race "
    "sweeps and 3% eviction storms (two different never-seen kernels generated at once, the victim parked before each "
    "access to module-level generator state that a solo generation mutates); "
    "GC injections; heap and capacity knobs. The scheduler pre-empts at line events of tensora/** "
    "and cffi/{recompiler,ffiplatform}.py, at every heap call of a running kernel and at "
    "simulated-lock operations. distinct_nontrivial counts distinct schedule signatures (hash of "
    "the (from-thread, to-thread, site) sequence at switch points) with at least one switch "
    "inside a hot window."
)


# ------------------------------------------------------------------------------ plan
def gen_plan(seed, cfg):
    from ..workload import gen_heap_knobs
    from .session import _gen_entries

    rng = random.Random(seed)
    tier = (cfg or {}).get("tier", "quick")
    if tier == "thorough" and rng.random() < 0.35:
        n = rng.choice([5, 6, 8, 8, 16]) if rng.random() < 0.9 else 16
    else:
        n = rng.choice([2, 2, 3, 3, 4])
    nprob = rng.randint(1, 4)
    use_cffi = rng.random() < (0.12 if tier == "quick" else 0.2)
    # swarm: a share of the runs concentrates on one kind of contention
    r_mode = rng.random()
    mode = "mixed"
    if r_mode < 0.07:
        mode = "cffi_storm"  # every thread's first call compiles a different, never-seen C kernel
        n = min(n, 4)
        nprob = n
    elif r_mode < 0.17:
        mode = "same_method"  # all threads call one method with different argument sets
        nprob = 1
    problems = []
    picks = rng.sample(range(len(CATALOG)), min(nprob, len(CATALOG)))
    for k in range(nprob):
        ci = picks[k] if mode == "cffi_storm" else rng.randrange(len(CATALOG))
        backend = "cffi" if use_cffi and rng.random() < 0.7 else "llvm"
        entry = rng.choice(ENTRY_POINTS)
        prewarm = rng.random() < 0.4
        if mode == "cffi_storm":
            backend, prewarm = "cffi", False
        problems.append({"catalog": ci, "name": f"o{seed % 100000:05d}x{k}", "backend": backend,
                         "entry": entry, "prewarm": prewarm})
    used_variants = rng.choice([[0], [0, 1], [1, 2], [0, 1, 2]])
    threads = [[[rng.randrange(nprob), rng.choice(used_variants)]
                for _ in range(rng.randint(1, 4 if n <= 4 else 2))] for _ in range(n)]
    if mode == "cffi_storm":
        for i in range(n):
            threads[i] = [[i % nprob, rng.choice(used_variants)]] + threads[i][:1]
    if mode == "same_method" and len(used_variants) == 1:
        used_variants = [0, rng.choice([1, 2])]
        threads = [[[0, rng.choice(used_variants)] for _ in t] for t in threads]
    data = [{k: _gen_entries(rng, v[k]) for k in sorted(SHARED)} for v in VARIANTS]
    strategy = rng.choice(["coin", "coin", "pct", "targeted", "targeted", "pct_writes", "pct_writes"])
    if mode == "same_method" and rng.random() < 0.5:
        strategy = "pct_writes"
    sp = {"strategy": strategy,
          "p_hot": rng.choice([0.02, 0.05, 0.1, 0.3]),
          "p_cold": rng.choice([0.0, 0.0005, 0.002]),
          "p_gc": rng.choice([0.0, 0.002, 0.01])}
    if strategy == "pct":
        d = rng.choice([1, 2, 3, 5])
        est = 9000 * sum(len(t) for t in threads)
        sp["change_points"] = sorted(rng.randrange(1, est) for _ in range(d))
    if strategy == "pct_writes":
        victims = rng.sample(range(n), rng.choice([1, 1, 2]) if n > 2 else 1)
        sp["park_at"] = {str(v): rng.randint(1, 45) for v in victims}
        sp["p_cold"] = rng.choice([0.0, 0.0, 0.0005])
    if strategy == "targeted":
        ws = rng.sample(sorted(WINDOWS), rng.randint(1, 3)) + ["heap"]
        sp["force_windows"] = {w: rng.randint(1, 4) for w in ws}
        sp["p_hot"] = rng.choice([0.0, 0.01, 0.03])
    # Bytecode-level pre-emption (frame.f_trace_opcodes) was tried and rejected: under CPython
    # 3.12's adaptive specialisation the number of opcode events of a function depends on how warm
    # its code object is, so a schedule recorded at opcode granularity does not replay in a fresh
    # interpreter (measured: 7080 vs 7261 steps for the same plan, first vs later run).  The tracer
    # still understands sched["opcodes"], but no plan sets it.
    hk = gen_heap_knobs(rng)
    if mode == "cffi_storm":
        strategy = rng.choice(["coin", "targeted"])
        sp["strategy"] = strategy
        sp["p_hot"] = rng.choice([0.02, 0.05, 0.1])
        sp.pop("park_at", None)
        if strategy == "targeted":
            sp["force_windows"] = {"cffi_recompile": rng.randint(2, 6), "cffi_platform": rng.randint(1, 4),
                                   "compile_evaluate": rng.randint(1, 3)}
        sp.pop("change_points", None)
    sp["global_points"] = True  # setters of process-global interpreter state are yield points
    # the kernel cache holds 128 methods, so eviction never runs with a handful of problems: in a share
    # of the runs its capacity is 1 or 2 (a method is evicted while another thread is still inside it)
    cache_size = rng.choice([128] * 8 + [1, 2])
    plan = {"engine": "T", "run_seed": seed, "hashseed": seed % 8, "n": n, "mode": mode, "problems": problems,
            "threads": threads, "data": data, "sched": sp, "heap": hk,
            "capacity": rng.choice([1, 1, 2, 3, 8, 1 << 20]), "decisions": None,
            "cache_size": cache_size if nprob > 1 else 128}
    r_sweep = rng.random()
    if 0.87 <= r_sweep < 0.9:
        # eviction storm: thread 0 is parked inside a call of a cached method while thread 1 compiles
        # 130 never-seen problems (more than the kernel cache holds), then thread 0 goes on with a
        # method that has been evicted meanwhile
        plan["mode"] = "eviction_storm"
        plan["n"] = 2
        ci = rng.choice([c for c in range(12)])
        plan["problems"] = [{"catalog": ci, "name": f"o{seed % 100000:05d}e", "backend": "cffi" if rng.random() < 0.1 else "llvm",
                             "entry": rng.choice(ENTRY_POINTS), "prewarm": rng.random() < 0.7},
                            {"flood": 130, "name": f"z{seed % 100000:05d}", "backend": "llvm", "entry": "evaluate",
                             "prewarm": False, "catalog": 0}]
        va = rng.choice([0, 1, 2])
        plan["threads"] = [[[0, va]], [[1, 0]]]
        plan["cache_size"] = 128
        plan["sched"] = {"strategy": "pct_writes", "p_hot": 0.0, "p_cold": 0.0, "p_gc": 0.0, "global_points": True,
                         "park_at": {"0": rng.randint(1, 14)}, "first": 0}
    elif r_sweep >= 0.9:
        # generation race: two threads generate two DIFFERENT never-seen kernels at the same time; the
        # victim is parked before each of its accesses to module-level state that a solo generation
        # was seen to mutate (counters, memo tables, "current ..." globals), one position per run,
        # while the partner runs its whole call.  On a tree without such state this is a single run.
        plan["mode"] = "gen_race"
        plan["n"] = 2
        cv = rng.choice(REPEATED) if rng.random() < 0.6 else rng.randrange(len(CATALOG))
        # partners of different sizes: what a shared counter or memo does to the victim depends on how
        # much of it the partner consumes (half of the partners mention a single operand)
        cp = rng.choice(SINGLE_OPERAND) if rng.random() < 0.5 else \
            rng.choice([c for c in range(len(CATALOG)) if c != cv])
        be = "cffi" if rng.random() < 0.1 else "llvm"
        plan["problems"] = [
            {"catalog": cv, "name": f"o{seed % 100000:05d}v", "backend": be, "entry": rng.choice(ENTRY_POINTS),
             "prewarm": False},
            {"catalog": cp, "name": f"o{seed % 100000:05d}p", "backend": be, "entry": rng.choice(ENTRY_POINTS),
             "prewarm": False}]
        va = rng.choice([0, 1, 2])
        plan["threads"] = [[[0, va]], [[1, va]]]
        if rng.random() < 0.4:
            # the victim repeats its request: state that remembers "the most recent request" is read on
            # the second call while the partner's different request replaces it
            plan["threads"][0].append([0, va])
        plan["park_sweep"] = {"thread": 0, "max": 16, "kind": "shared"}
    elif r_sweep < (0.03 if tier == "quick" else 0.05):
        # enumeration run: two threads, one shared method (compiled or not), every shared write of
        # the victim thread tried as the parking position
        plan["mode"] = "park_sweep"
        plan["n"] = 2
        ci = rng.randrange(len(CATALOG))
        plan["problems"] = [{"catalog": ci, "name": f"o{seed % 100000:05d}s", "backend": "llvm",
                             "entry": rng.choice(ENTRY_POINTS), "prewarm": rng.random() < 0.4}]
        va, vb = rng.sample([0, 1, 2], 2)
        plan["threads"] = [[[0, va], [0, vb]], [[0, vb], [0, va]]]
        plan["park_sweep"] = {"thread": rng.randrange(2), "max": 90}
        if rng.random() < 0.5:
            # ... or two DIFFERENT never-compiled problems, one per thread: every shared write of one
            # compilation as the parking position while the other compiles
            cj = rng.choice([c for c in range(len(CATALOG)) if c != ci and not CATALOG[c][0].startswith("op:")])
            plan["problems"][0]["prewarm"] = False
            plan["problems"].append({"catalog": cj, "name": f"o{seed % 100000:05d}t", "backend": "llvm",
                                     "entry": rng.choice(ENTRY_POINTS), "prewarm": False})
            plan["threads"] = [[[0, va]], [[1, va]]]
    return plan


# --------------------------------------------------------------------------- execution
_state = {}


def boot(cfg=None):
    from ..boot import boot as _boot

    _boot(sim_locks=True)
    init_trace_state()
    from tensora import Tensor
    from tensora.compile import evaluate_cffi, evaluate_tensora

    # warm-up: every lazily imported module, one compile per back end, before any simulated run
    t = Tensor.from_lol([1, 2])
    evaluate_tensora("w(i) = v(i)", "d", v=t)
    evaluate_cffi("w(i) = v(i)", "d", v=t)
    import pickle  # noqa: F401


def init_trace_state():
    import cffi
    import tensora

    src = os.path.dirname(tensora.__file__)
    cf = os.path.dirname(cffi.__file__)
    _state["src"] = src
    _state["hot"] = (os.path.join(src, "compile") + os.sep, os.path.join(src, "tensor.py"),
                     os.path.join(cf, "recompiler.py"), os.path.join(cf, "ffiplatform.py"))
    _state["cold"] = src + os.sep
    _state["base_cwd"] = os.getcwd()
    win = {}
    for w, (suffix, fn) in WINDOWS.items():
        base = cf if suffix.startswith("cffi/") else src
        path = os.path.join(base, suffix.split("/", 1)[1] if suffix.startswith("cffi/") else suffix)
        win[(path, fn)] = w
    _state["windows"] = win


def _do_call(prob, tensors, v=0):
    from tensora import tensor_method
    from tensora.compile import BackendCompiler, evaluate_cffi, evaluate_tensora

    if prob.get("flood"):
        x = tensors["x"]
        last = None
        for k in range(prob["flood"]):
            last = evaluate_tensora(f"{prob['name']}n{k}(i) = q{k}(i)", "d", **{f"q{k}": x})
        return last
    a, of, params = CATALOG[prob["catalog"]]
    if a.startswith("op:"):
        x = tensors[params["a"]]
        k = SCALARS[v % len(SCALARS)]
        if a == "op:mul_scalar":
            return x * k
        if a == "op:radd_scalar":
            return k + x
        if a == "op:sub_scalar":
            return x - k
        y = tensors[params["b"]]
        return x + y if a == "op:add" else x @ y
    assignment = a.format(o=prob["name"])
    kw = {p: tensors[k] for p, k in params.items()}
    if prob["entry"] == "tensor_method":
        formats = {prob["name"]: of}
        formats.update({p: SHARED[k][1] for p, k in params.items()})
        be = BackendCompiler.cffi if prob["backend"] == "cffi" else BackendCompiler.llvm
        return tensor_method(assignment, formats, be)(**kw)
    if prob["backend"] == "cffi":
        return evaluate_cffi(assignment, of, **kw)
    return evaluate_tensora(assignment, of, **kw)


def _raw(t):
    r = dec.raw_result(t)
    return [list(r[0][0]), list(r[0][1]), list(r[0][2]), r[1], r[2], [list(p) for p in r[3]]]


_WRITE_OPS = ("STORE_ATTR", "STORE_GLOBAL", "STORE_SUBSCR", "STORE_DEREF", "DELETE_ATTR", "DELETE_SUBSCR",
              "DELETE_GLOBAL")
# ... and calls of the mutating methods of the built-in containers (modules.append(x) stores nothing
# by opcode but publishes state all the same)
_MUTATORS = frozenset(("append", "extend", "insert", "add", "update", "setdefault", "pop", "popitem", "clear",
                       "remove", "discard", "appendleft", "popleft", "move_to_end", "sort", "reverse"))


def _write_lines(code):
    """Lines of a code object that store to an attribute, a global, a subscript or a cell: the
    places where a thread can publish state that another thread reads."""
    import dis

    lines = set()
    cur = None
    for ins in dis.get_instructions(code):
        if ins.starts_line is not None:
            cur = ins.starts_line
        if cur is None:
            continue
        if ins.opname in _WRITE_OPS:
            lines.add(cur)
        elif ins.opname in ("LOAD_ATTR", "LOAD_METHOD") and ins.argval in _MUTATORS:
            lines.add(cur)
    return frozenset(lines)


_stored_globals = {}


def _names_stored_globally(filename):
    """Names that some function of the module re-binds with STORE_GLOBAL / DELETE_GLOBAL: module-level
    state even if every generation leaves it as it found it (push / pop, set / restore)."""
    import dis
    import types

    if filename not in _stored_globals:
        names = set()
        try:
            top = compile(open(filename).read(), filename, "exec")
        except Exception:
            top = None

        def walk(code):
            if code.co_name != "<module>":
                for ins in dis.get_instructions(code):
                    if ins.opname in ("STORE_GLOBAL", "DELETE_GLOBAL"):
                        names.add(ins.argval)
            for c in code.co_consts:
                if isinstance(c, types.CodeType):
                    walk(c)

        if top is not None:
            walk(top)
        _stored_globals[filename] = frozenset(names)
    return _stored_globals[filename]


def _shared_lines(code, names):
    """Lines of a code object that load, store or delete one of the given module-level names (or a
    name the module re-binds somewhere)."""
    import dis

    names = set(names) | _names_stored_globally(code.co_filename)
    lines = set()
    cur = None
    for ins in dis.get_instructions(code):
        if ins.starts_line is not None:
            cur = ins.starts_line
        if cur is None:
            continue
        if ins.opname in ("STORE_GLOBAL", "DELETE_GLOBAL"):
            lines.add(cur)
        elif ins.opname == "LOAD_GLOBAL" and ins.argval in names:
            lines.add(cur)
    return frozenset(lines)


def _make_tracer(s: Sched, shared_names=None):
    shared_names = shared_names or {}
    hot = _state["hot"]
    cold = _state["cold"]
    windows = _state["windows"]

    opcodes = bool(s.params.get("opcodes"))

    def mk(is_hot, short, window, wlines=frozenset(), slines=frozenset()):
        def local(frame, event, arg):
            if event == "line":
                ln = frame.f_lineno
                s.point(f"{short}:{ln}", is_hot, ln in wlines, ln in slines)
            elif event == "opcode":
                s.point(f"{short}:{frame.f_lineno}+{frame.f_lasti}", is_hot)
            elif event == "return" and window is not None:
                me = s.tid()
                if me is not None:
                    st = s.win_stack[me]
                    if st and st[-1] == window:
                        st.pop()
                    s.in_window[me] = st[-1] if st else None
            return local

        return local

    cache = {}

    def glob(frame, event, arg):
        code = frame.f_code
        loc = cache.get(code)
        if loc is None:
            f = code.co_filename
            if f.startswith(hot):
                w = windows.get((f, code.co_name)) or windows.get((f, None))
                own = f.startswith(hot[:2])
                loc = mk(True, os.path.basename(f), w, _write_lines(code) if own else frozenset(),
                         _shared_lines(code, ()) if own else frozenset()), w, own
            elif f.startswith(cold):
                loc = mk(False, os.path.basename(f), None, frozenset(),
                         _shared_lines(code, shared_names.get(f, ()))), None, False
            else:
                loc = (None, None, False)
            cache[code] = loc
        if loc[1] is not None:
            me = s.tid()
            if me is not None and me == s.cur:
                s.win_stack[me].append(loc[1])
                s.in_window[me] = loc[1]
                s.window_hits[loc[1]] = s.window_hits.get(loc[1], 0) + 1
        if opcodes and loc[2]:
            frame.f_trace_opcodes = True
        return loc[0]

    return glob


def run_plan(plan, cfg=None):
    """With plan["park_sweep"] the same workload is run once per shared-state write of the victim
    thread: the victim is parked right before its k-th write, k = 1, 2, ... until it has no k-th
    write (fault enumeration over the pre-emption points at shared writes for that workload)."""
    sw = plan.get("park_sweep")
    if not sw:
        return _run_once(plan, cfg)
    import copy

    first = None
    covered = 0
    shared = sw.get("kind") == "shared"
    probe = "parked_at_shared_access" if shared else "parked_at_shared_write"
    for k in range(1, sw["max"] + 1):
        rearm_watchdog()
        p = copy.deepcopy(plan)
        p["park_sweep"] = None
        p["decisions"] = None
        p["sched"] = _sweep_sched(sw, k)
        r = _run_once(p, cfg)
        if first is None:
            first = r
        else:
            for key, v in (r.get("stats") or {}).items():
                first["stats"][key] = first["stats"].get(key, 0) + v
            first["steps"] = first.get("steps", 0) + r.get("steps", 0)
        if r["verdict"] != "ok":
            if r["verdict"] == "violation":
                plan.clear()
                plan.update(p)  # the failing position becomes the plan of record
            r.setdefault("probes", {})["park_sweeps"] = 1
            return r
        if not r["probes"].get(probe):
            break  # the victim has fewer than k such lines: every position was covered
        covered += 1
    pairs = 0
    if shared and covered:
        # depth 2: the victim parks at its k1-th access, the partner runs up to ITS k2-th access and
        # parks, the victim finishes, then the partner - every (k1, k2), both threads as the victim
        budget = 30
        for victim in (sw["thread"], 1 - sw["thread"]):
            sw2 = dict(sw, thread=victim)
            for k1 in range(1, 13):
                any_k2 = False
                for k2 in range(1, 13):
                    if budget <= 0:
                        break
                    rearm_watchdog()
                    p = copy.deepcopy(plan)
                    p["park_sweep"] = None
                    p["decisions"] = None
                    p["sched"] = _sweep_sched(sw2, k1, k2)
                    r = _run_once(p, cfg)
                    budget -= 1
                    first["steps"] = first.get("steps", 0) + r.get("steps", 0)
                    if r["verdict"] != "ok":
                        if r["verdict"] == "violation":
                            plan.clear()
                            plan.update(p)
                        r.setdefault("probes", {})["generation_race_sweeps"] = 1
                        return r
                    if r["probes"].get("parked_at_shared_access", 0) < 2:
                        break  # the partner has fewer than k2 accesses (or the victim fewer than k1)
                    any_k2 = True
                    pairs += 1
                if not any_k2:
                    break
    first["probes"]["generation_race_sweeps" if shared else "park_sweeps"] = 1
    first["probes"]["shared_access_positions_enumerated" if shared else "park_positions_enumerated"] = covered
    if pairs:
        first["probes"]["shared_access_position_pairs_enumerated"] = pairs
    first["shape"] = f"sweep:{first.get('shape')}"
    return first


def _sweep_sched(sw, k, k2=None):
    if sw.get("kind") == "shared":
        pa = {str(sw["thread"]): k}
        if k2 is not None:
            pa[str(1 - sw["thread"])] = k2
        return {"strategy": "pct_shared", "p_hot": 0.0, "p_cold": 0.0, "p_gc": 0.0, "global_points": True,
                "park_at_shared": pa, "first": sw["thread"]}
    return {"strategy": "pct_writes", "p_hot": 0.0, "p_cold": 0.0, "p_gc": 0.0,
            "park_at": {str(sw["thread"]): k}, "first": sw["thread"]}


_IMMUTABLE_GLOBALS = None


def _module_state():
    """Fingerprint of the module-level state of every tensora module outside compile/ and tensor.py:
    (module file, global name) -> (identity, cheap rendering).  Compared before and after a solo
    generation to find the names whose objects a generation rebinds or mutates."""
    import types

    global _IMMUTABLE_GLOBALS
    if _IMMUTABLE_GLOBALS is None:
        _IMMUTABLE_GLOBALS = (int, float, str, bytes, bool, type(None), tuple, frozenset, complex,
                              types.ModuleType, types.FunctionType, types.BuiltinFunctionType)
    hot = _state["hot"]
    out = {}
    for name, mod in list(sys.modules.items()):
        if not name.startswith("tensora") or mod is None:
            continue
        f = getattr(mod, "__file__", None)
        if not f or f.startswith(hot[:2]):
            continue
        for k, v in list(vars(mod).items()):
            if k.startswith("__") or isinstance(v, _IMMUTABLE_GLOBALS):
                continue
            try:
                if isinstance(v, type):
                    if getattr(v, "__module__", None) != name:
                        continue
                    fp = tuple(sorted((a, repr(b)[:60]) for a, b in vars(v).items()
                                      if not a.startswith("__") and not callable(b)
                                      and not isinstance(b, (property, classmethod, staticmethod))
                                      and not hasattr(b, "__get__")))
                elif isinstance(v, (dict, list, set)) or hasattr(v, "__len__"):
                    fp = (len(v), repr(v)[:400])
                else:
                    fp = repr(v)[:400]
            except Exception:
                continue
            out[(f, k)] = (id(v), fp)
    return out


def _state_diff(a, b):
    names = {}
    for key in set(a) | set(b):
        if a.get(key) != b.get(key):
            names.setdefault(key[0], set()).add(key[1])
    return names


def _set_cache_size(_porcelain, size, res):
    """Capacity knob of the kernel cache ("buggify"): re-wrap the cached function with another
    maxsize.  Left alone (and recorded) if the cache is not an lru_cache any more."""
    import functools

    orig = _state.setdefault("orig_cache", getattr(_porcelain, "cachable_tensor_method", None))
    # only a genuine functools.lru_cache is re-wrapped (anything else - a hand-written cache that merely
    # offers the same attributes - may call its inner function differently: re-wrapping one raised
    # TypeErrors that were the knob's fault, found with a legal refactoring as negative control)
    genuine = type(orig) is type(functools.lru_cache(maxsize=1)(lambda: None))
    inner = getattr(orig, "__wrapped__", None)
    if not genuine or inner is None:
        if size != 128:
            res["probes"]["cache_size_knob_unavailable"] = 1
        return
    if size == 128:
        _porcelain.cachable_tensor_method = orig
    else:
        _porcelain.cachable_tensor_method = functools.lru_cache(maxsize=size)(inner)
        res["probes"]["kernel_cache_capacity_1_or_2"] = 1


def _run_once(plan, cfg=None):
    from tensora import Tensor
    from tensora.compile import _porcelain

    heap = SIM.heap
    hk = plan["heap"]
    g, z, poison = hk["twins"][0]
    res = {"verdict": "ok", "violations": [], "stats": {}, "probes": {}, "skip": None}
    vio = []

    def viol(oracle, at, *detail):
        vio.append({"properties": ["C14"], "oracle": oracle, "phase": at, "twin": 0,
                    "detail": json.loads(json.dumps(detail, default=repr))})

    gc.collect()
    gc.disable()
    s = None
    try:
        os.chdir(_state["base_cwd"])
        _set_cache_size(_porcelain, plan.get("cache_size", 128), res)
        if not clear_kernel_cache():
            res["probes"]["cache_clear_unavailable"] = 1
        set_capacity(plan["capacity"])
        heap.reset()
        heap.configure(garbage=g, redzone=z, rz=hk["rz"], realloc=hk["realloc"], zero=hk["zero"],
                       poison=poison)
        tensors = []
        for vi, var in enumerate(VARIANTS):
            tv = {}
            for k, (_, fmt) in SHARED.items():
                ent = plan["data"][vi][k]
                tv[k] = Tensor.from_aos([tuple(e[0]) for e in ent], [e[1] for e in ent],
                                        dimensions=var[k], format=fmt)
            tensors.append(tv)
        calls = sorted({(pi, v) for t in plan["threads"] for pi, v in t})
        problems = plan["problems"]
        # ---- reference phase: each distinct call alone, cold cache, untraced
        ref = {}
        want_shared = plan["sched"].get("strategy") == "pct_shared"
        fp0 = _module_state() if want_shared else None
        for pi, v in calls:
            if problems[pi].get("flood"):
                ref[(pi, v)] = ("flood", None)  # 130 throw-away compilations: only "no exception" is asked
                continue
            try:
                ref[(pi, v)] = ("ok", _raw(_do_call(problems[pi], tensors[v], v)))
            except Exception as e:
                ref[(pi, v)] = ("exc", type(e).__name__)
                del e
        shared_names = _state_diff(fp0, _module_state()) if want_shared else {}
        if not clear_kernel_cache():
            res["probes"]["cache_clear_unavailable"] = 1
        for p in problems:
            if p["prewarm"] and not p.get("flood"):
                try:
                    _do_call(p, tensors[0])
                except Exception:
                    pass
        gc.collect()
        heap.drain()
        heap.check()  # reference-phase blocks are all gone or irrelevant from here on
        base_live = {b.id for b in heap.live_blocks()}
        # ---- concurrent phase
        n = plan["n"]
        s = Sched(n, plan["sched"], plan["run_seed"] ^ 0x5EED, replay=plan.get("decisions"),
                  step_budget=60 * 40000 * max(1, sum(len(t) for t in plan["threads"])))
        SIM.sched = s
        results = [[] for _ in range(n)]
        owned = [[] for _ in range(n)]  # per call: ids of the blocks of its output
        errors = [None] * n
        tracer = _make_tracer(s, shared_names)
        if shared_names:
            s.probe("module_level_names_mutated_by_a_generation",
                    sum(len(v) for v in shared_names.values()))

        def heap_hook(label):
            me = s.tid()
            if me is not None and me == s.cur:
                s.in_window[me] = "heap"
                s.window_hits["heap"] = s.window_hits.get("heap", 0) + 1
                s.point(label, True)
                st = s.win_stack[me]
                s.in_window[me] = st[-1] if st else None

        def on_point(sc, me, label):
            # reach probes that need a view over all threads
            w = sc.in_window[me]
            if w is None:
                return
            for j in range(sc.n):
                if j != me and sc.alive[j] and sc.in_window[j] is not None:
                    if sc.in_window[j] == w:
                        sc.probes[f"two_threads_in_{w}"] = sc.probes.get(f"two_threads_in_{w}", 0) + 1
                    if sc.in_window[j] == "heap":
                        sc.probes["ran_while_other_thread_parked_inside_kernel"] = \
                            sc.probes.get("ran_while_other_thread_parked_inside_kernel", 0) + 1
                    break

        s.on_point = on_point
        heap.hook = heap_hook

        def body(i):
            th = threading.current_thread()
            th.sim_id = i
            s.ev[i].acquire()
            if s.abandoned:
                s.finish()
                return
            sys.settrace(tracer)
            try:
                for k, (pi, v) in enumerate(plan["threads"][i]):
                    th.sim_call = f"t{i}c{k}"
                    try:
                        r = _do_call(problems[pi], tensors[v], v)
                    except Abandoned:
                        raise
                    except Exception as e:
                        results[i].append(("exc", type(e).__name__, str(e)[:300]))
                        owned[i].append(None)
                        del e
                        continue
                    results[i].append(("ok", _raw(r)))
                    owned[i].append([heap.block_at(a).id if heap.block_at(a) else None
                                     for _, a in dec.pointers(r.cffi_tensor) if heap.in_arena(a)])
                    del r
            except Abandoned:
                errors[i] = "abandoned"
            except BaseException as e:
                import traceback

                errors[i] = f"{type(e).__name__}: {e} {traceback.format_exc()[-800:]}"
            finally:
                sys.settrace(None)
                th.sim_call = None
                s.finish()

        ts = [threading.Thread(target=body, args=(i,), name=f"sim-{i}", daemon=True) for i in range(n)]
        for t in ts:
            t.start()
        s.start()
        how = s.wait()
        heap.hook = None
        SIM.sched = None
        for t in ts:
            t.join(timeout=120)
        stuck = [t.name for t in ts if t.is_alive()]
        if how == "stalled" or stuck:
            res["verdict"] = "inconclusive"
            res["skip"] = "unmodelled_blocking"
        elif s.deadlock is not None:
            viol("deadlock", "concurrent", s.deadlock)
        elif s.budget_exceeded:
            viol("no_progress_within_step_budget", "concurrent", s.steps)
        else:
            for i in range(n):
                if errors[i] is not None:
                    # calls into tensora are wrapped one by one in the thread body; anything that
                    # kills the body itself is the harness's own fault
                    raise RuntimeError(f"simulated thread {i} died in harness code: {errors[i]}")
                for k, ((pi, v), r) in enumerate(zip(plan["threads"][i], results[i])):
                    exp = ref[(pi, v)]
                    if exp[0] == "flood":
                        if r[0] == "exc":
                            viol("unexpected_exception", f"thread{i}.call{k}", r[1], r[2], "flood")
                        continue
                    if r[0] == "exc":
                        if exp[0] != "exc" or exp[1] != r[1]:
                            viol("unexpected_exception", f"thread{i}.call{k}", r[1], r[2],
                                 problems[pi]["backend"], CATALOG[problems[pi]["catalog"]][0])
                    elif exp[0] == "exc":
                        viol("missing_exception", f"thread{i}.call{k}", exp[1])
                    elif r[1] != exp[1]:
                        viol("result_differs_from_sequential", f"thread{i}.call{k}",
                             CATALOG[problems[pi]["catalog"]][0], r[1][3:5], exp[1][3:5])
                    ids = owned[i][k] if k < len(owned[i]) else None
                    if ids:
                        for bid in ids:
                            b = heap.by_id.get(bid) if bid is not None else None
                            if b is None:
                                viol("output_array_unknown_to_heap", f"thread{i}.call{k}")
                            elif b.call != f"t{i}c{k}":
                                viol("output_array_allocated_by_another_call", f"thread{i}.call{k}",
                                     b.call)
            for e in heap.check():
                viol("heap:" + e[0], "concurrent", *e[1:])
            results = None
            gc.collect()
            heap.drain()
            for e in heap.check():
                viol("heap:" + e[0], "after_release", *e[1:])
            left = [b for b in heap.live_blocks() if b.id not in base_live]
            if left:
                viol("blocks_live_after_results_dropped", "after_release",
                     [(b.size, b.call) for b in left[:6]])
        if s is not None and res["verdict"] != "inconclusive" and plan.get("decisions") is None:
            plan["decisions"] = s.decisions
    finally:
        heap.hook = None
        SIM.sched = None
        gc.enable()
        try:
            os.chdir(_state["base_cwd"])
        except Exception:
            pass
    seen = set()
    out = []
    for v in vio:
        if v["oracle"] not in seen:
            seen.add(v["oracle"])
            out.append(v)
    res["violations"] = out
    if out:
        res["verdict"] = "violation"
    st = dict(heap.stats)
    if s is not None:
        st.update({"switches": s.switches, "gc_injected": s.gcs,
                   "switches_inside_running_kernel": sum(v for k, v in s.switch_sites.items() if k.startswith("heap.")),
                   "lock_contended": s.probes.get("lock_contended", 0)})
        res["steps"] = s.steps
        res["probes"].update({k: (1 if k.startswith(("two_threads_in_", "ran_while_")) else v)
                              for k, v in s.probes.items()})
        for w, c in s.window_hits.items():
            res["probes"]["entered_" + w] = c
        hot_sw = sum(v for k, v in s.switch_sites.items()
                     if k.startswith(("heap.", "lock.", "_tensor_method", "_cffi_ownership", "_porcelain",
                                      "_compile_", "recompiler", "ffiplatform", "tensor.py")))
        res["nontrivial"] = hot_sw > 0
        res["shape"] = s.sig.hexdigest()
        res["digest"] = s.log.hexdigest()
        res["extra"] = {"switch_sites": len(s.switch_sites)}
    res["stats"] = st
    res["plan_decisions"] = len(plan.get("decisions") or [])
    return res


def fingerprint(plan, violation):
    probs = sorted({("flood of never-seen problems" if p.get("flood") else CATALOG[p["catalog"]][0],
                     p["backend"], p["entry"]) for p in plan["problems"]})
    return f"{violation['oracle']} @ " + "; ".join(f"{a} [{b}/{e}]" for a, b, e in probs)


def sample(plan, res):
    return {"threads": plan["threads"], "n": plan["n"],
            "problems": [{"assignment": f"flood of {p['flood']} never-seen problems" if p.get("flood")
                          else CATALOG[p["catalog"]][0].format(o=p["name"]),
                          "format": CATALOG[p["catalog"]][1], "backend": p["backend"],
                          "entry": p["entry"], "prewarm": p["prewarm"]} for p in plan["problems"]],
            "sched": plan["sched"], "capacity": plan["capacity"],
            "recorded_decisions": len(plan.get("decisions") or []), "first_decisions": (plan.get("decisions") or [])[:8],
            "steps": res.get("steps"), "verdict": res["verdict"], "digest": res.get("digest")}


def summarise_extra(agg):
    sites = agg["extra"].get("switch_sites", [])
    return {"max_distinct_switch_sites_in_one_run": max(sites) if sites else 0}


def shrink_candidates(plan):
    import copy

    if plan.get("park_sweep"):
        # a sweep that crashed the worker: find the single position that does it
        sw = plan["park_sweep"]
        for k in range(1, sw["max"] + 1):
            p = copy.deepcopy(plan)
            p["park_sweep"] = None
            p["decisions"] = None
            p["sched"] = _sweep_sched(sw, k)
            yield p
        return
    dec_ = plan.get("decisions") or []
    n = plan["n"]
    # 1. drop threads (renumbering decisions is not attempted: re-generate the schedule instead)
    if n > 2:
        for drop in reversed(range(n)):
            p = copy.deepcopy(plan)
            p["n"] = n - 1
            del p["threads"][drop]
            p["decisions"] = None
            yield p
    # 2. drop calls
    for i, t in enumerate(plan["threads"]):
        if len(t) > 1:
            for k in reversed(range(len(t))):
                p = copy.deepcopy(plan)
                del p["threads"][i][k]
                yield p
    # 3. drop scheduler decisions (chunks, then singles) - prefer staying on the same thread
    m = len(dec_)
    if m:
        chunk = m // 2
        while chunk >= 1:
            for start in range(0, m, chunk):
                p = copy.deepcopy(plan)
                kept = [d for j, d in enumerate(dec_) if not (start <= j < start + chunk) or d[2] == "first"]
                if len(kept) < m:
                    p["decisions"] = kept
                    yield p
            if chunk == 1:
                break
            chunk //= 2
    # 4. knobs toward benign
    if plan["capacity"] != 1 << 20:
        p = copy.deepcopy(plan); p["capacity"] = 1 << 20; yield p
    if plan["heap"]["realloc"] != "size_class":
        p = copy.deepcopy(plan); p["heap"]["realloc"] = "size_class"; yield p
    for i, pr in enumerate(plan["problems"]):
        if pr["prewarm"]:
            p = copy.deepcopy(plan); p["problems"][i]["prewarm"] = False; yield p
