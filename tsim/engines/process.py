"""Engine P: request histories in fresh interpreters with their own PYTHONHASHSEED.

Each run executes two interpreters: a *baseline* (hash seed 0, every distinct request once, in
canonical order) and a *variant* (seeded hash seed, the generated history: shuffled and repeated
requests through library and CLI entry points, permuted -f options and formats-dict orders,
omitted dense formats, stdout vs -o, cache clears, LRU eviction floods).

Oracle: equal canonical request key => equal digest in both interpreters and at every position;
warm = cold = after-eviction; two requests that received the identical TensorMethod object are
the same problem.
"""

from __future__ import annotations

import copy
import json
import os
import random
import subprocess
import sys

from ..boot import PYTHON, VERIF
from ..workload import (CATALOGUE, expr_refs, expr_to_str, gen_problem, gen_sizes, parse_fmt,
                        problem_from_text, swarm_features)

NAME = "P"
WATCHDOG_S = 300
KIND_SETS = [["evaluate"], ["compute"], ["assemble"], ["assemble", "compute"],
             ["evaluate", "assemble", "compute"], ["compute", "evaluate"]]
RULE = (
    "Each evaluation is one pair of fresh interpreters over a pool of 3-7 problems (fixed "
    "catalogue and the seeded grammar of engine K, plus variants that differ only in a mode "
    "ordering, only in tensor names, only in index names or only in the numeric type of one "
    "literal): the baseline runs every distinct "
    "request once under PYTHONHASHSEED=0, the variant runs a history of 25-60 requests "
    "{generate_code, CLI to stdout / -o with permuted -f and omitted dense formats, "
    "tensor_method with formats in some dict order, private cache entry with formats in another "
    "order, evaluate warm / after cache_clear / after an eviction flood of >128 problems} under a "
    "seeded PYTHONHASHSEED. distinct_nontrivial counts distinct (request key, hash seed, cache "
    "state in cold|warm|cleared|evicted) triples observed in variant interpreters."
)


def boot(cfg=None):
    pass


# ------------------------------------------------------------------------------- plan
def _canon_formats(prob):
    """All tensors explicit, in order of appearance (target first)."""
    tname = prob.get("target_name", "A")
    order = [tname] + list(prob["inputs"].keys())
    return [[n, prob["formats"].get(n, "d" * (len(prob["target"]) if n == tname else len(prob["inputs"][n])))]
            for n in order]


def _problem_key(prob):
    # canonical identity of a problem: assignment text as generated (canonical tree rendering) +
    # every tensor's format, ordering included
    return prob["assignment"] + " | " + ",".join(f"{n}:{f}" for n, f in _canon_formats(prob))


def _rename(prob, mapping_t, mapping_i):
    """The same problem with other tensor / index names (a different problem for the cache)."""
    import re

    def sub(m):
        name = mapping_t.get(m.group(1), m.group(1))
        idx = ",".join(mapping_i.get(x.strip(), x.strip()) for x in m.group(2).split(",") if x.strip())
        return f"{name}({idx})"

    p = copy.deepcopy(prob)
    p["assignment"] = re.sub(r"([A-Za-z][A-Za-z0-9]*)\(([^)]*)\)", sub, prob["assignment"])
    p["formats"] = {mapping_t.get(n, n): f for n, f in prob["formats"].items()}
    p["inputs"] = {mapping_t.get(n, n): [mapping_i.get(x, x) for x in ix] for n, ix in prob["inputs"].items()}
    p["target"] = [mapping_i.get(x, x) for x in prob["target"]]
    p["target_name"] = mapping_t.get(prob.get("target_name", "A"), prob.get("target_name", "A"))
    p["classes"] = {mapping_i.get(x, x): mapping_i.get(c, c) for x, c in prob["classes"].items()}
    return p


_INT_LIT = r"(?<![A-Za-z0-9_.])(\d+)(?![\d.(eEA-Za-z_])"
_FLOAT_LIT = r"(?<![A-Za-z0-9_.])(\d+)\.0(?![\deE])"


def _literal_twin(rng, prob):
    import re

    a = prob["assignment"]
    lhs, rhs = a.split("=", 1)
    ints = list(re.finditer(_INT_LIT, rhs))
    floats = list(re.finditer(_FLOAT_LIT, rhs))
    cands = [("i", m) for m in ints] + [("f", m) for m in floats]
    if not cands:
        return None
    kind, m = rng.choice(cands)
    new = m.group(1) + ".0" if kind == "i" else m.group(1)
    q = copy.deepcopy(prob)
    q["assignment"] = lhs + "=" + rhs[:m.start()] + new + rhs[m.end():]
    q.pop("expr", None)
    return q


def _structure_twin(rng, prob):
    """The same tensor names at the same positions with the same formats, but some operators and
    some index lists re-drawn: requests that share every name / id / position and differ in
    structure - what an order-insensitive or name-keyed cache inside the generator conflates."""
    import re

    a = prob["assignment"]
    lhs, rhs = a.split("=", 1)
    all_idx = sorted({x.strip() for m in re.finditer(r"[A-Za-z][A-Za-z0-9]*\(([^)]*)\)", a)
                      for x in m.group(1).split(",") if x.strip()})
    changed = False

    def mention(m):
        nonlocal changed
        idx = [x.strip() for x in m.group(2).split(",") if x.strip()]
        if idx and rng.random() < 0.35:
            others = [x for x in all_idx if x not in idx]
            if others:
                idx[rng.randrange(len(idx))] = rng.choice(others)
                changed = True
            elif len(idx) > 1:
                rng.shuffle(idx)
                changed = True
        return f"{m.group(1)}({','.join(idx)})"

    def operator(m):
        nonlocal changed
        if rng.random() < 0.5:
            new = rng.choice([o for o in "*+-" if o != m.group(1)])
            changed = True
            return f" {new} "
        return m.group(0)

    rhs2 = re.sub(r"([A-Za-z][A-Za-z0-9]*)\(([^)]*)\)", mention, rhs)
    rhs2 = re.sub(r" ([*+-]) ", operator, rhs2)
    if not changed or rhs2 == rhs:
        return None
    q = problem_from_text(lhs + "=" + rhs2, dict(_canon_formats(prob)))
    q["target_name"] = prob.get("target_name", "A")
    return q


def _format_swap_twin(rng, prob):
    cf = dict(_canon_formats(prob))
    names = list(prob["inputs"].keys())
    pairs = [(a, b) for i, a in enumerate(names) for b in names[i + 1:]
             if len(prob["inputs"][a]) == len(prob["inputs"][b]) and cf[a] != cf[b]]
    if not pairs:
        return None
    a, b = rng.choice(pairs)
    q = copy.deepcopy(prob)
    q["formats"] = dict(cf)
    q["formats"][a], q["formats"][b] = cf[b], cf[a]
    return q


def _operator_twin(rng, prob):
    import re

    a = prob["assignment"]
    lhs, rhs = a.split("=", 1)
    ops = [m for m in re.finditer(r" ([*+]) ", rhs)]
    if not ops:
        return None
    m = rng.choice(ops)
    new = "+" if m.group(1) == "*" else "*"
    q = copy.deepcopy(prob)
    q["assignment"] = lhs + "=" + rhs[:m.start(1)] + new + rhs[m.end(1):]
    q.pop("expr", None)
    return q


def gen_plan(seed, cfg):
    from .session import _gen_entries

    rng = random.Random(seed)
    pool = []
    # "wide" runs: text generation only, over 10-16 families of related problems (a seed problem and
    # its twins).  Order- and history-dependence of the generator shows between related requests, a
    # generation costs milliseconds and an interpreter start costs a second, so one pair of
    # interpreters can try five times as many families as a mixed run.
    wide = rng.random() < 0.4
    npool = rng.randint(6, 10) if wide else rng.randint(2, 4)
    for _ in range(npool):
        if rng.random() < 0.5:
            a, fm = rng.choice(CATALOGUE)
            prob = problem_from_text(a, fm)
        else:
            feat = swarm_features(rng)
            feat["broadcast_target"] = False
            feat["max_order"] = min(feat["max_order"], 3)
            feat["depth"] = min(feat["depth"], 2)
            prob = gen_problem(rng, feat)
            prob["assignment"] = f"A({','.join(prob['target'])}) = {expr_to_str(prob['expr'])}"
            prob["target_name"] = "A"
        pool.append(prob)
        # the same problem with one literal spelled as the other numeric type (2 <-> 2.0): equal as
        # Python numbers, different requests with different text (added after seeded change C-C15-2,
        # a literal memo keyed by value, was missed)
        twin = _literal_twin(rng, prob)
        if twin is not None and rng.random() < 0.6:
            pool.append(twin)
        # the same operands, tensor names and formats with ONE operator exchanged (* <-> +): equal sets
        # of tensor mentions met in another order by the iteration-graph code (added after seeded
        # changes D-C15-1/2: caches keyed by order-insensitive sets replay the first order they saw)
        otw = _operator_twin(rng, prob)
        if otw is not None and rng.random() < 0.5:
            pool.append(otw)
        for _ in range(rng.randint(1, 3) if wide else (1 if rng.random() < 0.5 else 0)):
            stw = _structure_twin(rng, prob)
            if stw is not None:
                pool.append(stw)
        # the formats of two inputs of equal order exchanged (a different problem whose format TUPLE is
        # a permutation of the seed's: seeded change E-C15-1 keyed a front memo by the formats in call
        # order without the names)
        sw = _format_swap_twin(rng, prob)
        if sw is not None and rng.random() < 0.4:
            pool.append(sw)
        # near-duplicates that must NOT share a cached kernel
        r = rng.random()
        if r < 0.3:
            names = list(prob["inputs"].keys())
            if names:
                q = _rename(prob, {names[0]: names[0] + "x"}, {})
                pool.append(q)
        elif r < 0.5 and prob["target"]:
            allidx = sorted(set(prob["classes"]))
            q = _rename(prob, {}, {allidx[0]: allidx[0] + "q"})
            pool.append(q)
        elif r < 0.8:
            # differ only in one mode ordering (or one mode)
            cands = [n for n, f in _canon_formats(prob) if len(parse_fmt(f)[0]) >= 2]
            if cands:
                n = rng.choice(cands)
                modes, ordering = parse_fmt(dict(_canon_formats(prob))[n])
                perm = list(ordering)
                rng.shuffle(perm)
                if tuple(perm) != tuple(ordering):
                    q = copy.deepcopy(prob)
                    q["formats"] = dict(q["formats"])
                    q["formats"][n] = "".join(m + str(o) for m, o in zip(modes, perm)) \
                        if perm != sorted(perm) else "".join(modes)
                    pool.append(q)
    # requests
    base = []
    for prob in pool:
        pk = _problem_key(prob)
        cf = _canon_formats(prob)
        for _ in range(1 if wide else rng.randint(1, 3)):
            kinds = rng.choice(KIND_SETS)
            lang = rng.choice(["c", "llvm"])
            base.append({"kind": "gen", "prob": pk, "assignment": prob["assignment"], "formats": cf,
                         "kinds": kinds, "lang": lang,
                         "key": f"code|{pk}|{'+'.join(kinds)}|{lang}"})
        if wide:
            continue
        for be in (["llvm"] if rng.random() < 0.85 else ["llvm", "cffi"]):
            base.append({"kind": "tm", "prob": pk, "assignment": prob["assignment"], "formats": cf,
                         "backend": be, "key": f"tm|{pk}|{be}"})
        if rng.random() < 0.7 and all(x in {i for ix in prob["inputs"].values() for i in ix} for x in prob["target"]):
            sizes = gen_sizes(rng, prob, {"zero_dims": False})
            inputs = {}
            fm = dict(cf)
            for n, ix in prob["inputs"].items():
                dims = [sizes[x] for x in ix]
                inputs[n] = {"dims": dims, "fmt": fm[n], "entries": _gen_entries(rng, dims)}
            tname = prob.get("target_name", "A")
            base.append({"kind": "eval", "prob": pk, "assignment": prob["assignment"],
                         "out_format": fm[tname], "inputs": inputs, "backend": "llvm",
                         "key": f"eval|{pk}|llvm|" + _data_key(inputs)})
            # the same request with one inconsistent dimension: must be refused every time, warm or
            # cold (an index shared by two arguments gets two different sizes)
            where = {}
            for n, ix in prob["inputs"].items():
                for pos_, x in enumerate(ix):
                    where.setdefault(prob["classes"].get(x, x), []).append((n, pos_))
            shared = [v for v in where.values() if len({n for n, _ in v}) >= 2]
            if shared and rng.random() < 0.5:
                n, pos_ = rng.choice(rng.choice(shared))
                bad = copy.deepcopy(inputs)
                bad[n]["dims"][pos_] += 1
                base.append({"kind": "eval", "prob": pk, "assignment": prob["assignment"],
                             "out_format": fm[tname], "inputs": bad, "backend": "llvm", "bad": True,
                             "key": f"eval|{pk}|llvm|bad:" + _data_key(bad)})
    def gen_history():
        if wide:
            # every request once, shuffled, a few of them twice
            history = [_concretise(rng, b) for b in base]
            rng.shuffle(history)
            for b in rng.sample(base, min(len(base), 5)):
                history.insert(rng.randrange(len(history) + 1), _concretise(rng, b))
            return history
        history = []
        nreq = rng.randint(25, 60)
        evict_at = rng.randrange(3, nreq) if rng.random() < 0.12 else -1
        for j in range(nreq):
            r = rng.random()
            if j == evict_at:
                history.append({"kind": "evict", "n": 140})
                continue
            if r < 0.06:
                history.append({"kind": "cache_clear"})
                if rng.random() < 0.5:
                    history.append({"kind": "gc"})
                continue
            if r < 0.08:
                history.append({"kind": "gc"})
                continue
            b = rng.choice(base)
            history.append(_concretise(rng, b))
            if b.get("bad") and rng.random() < 0.7:
                # an identical rejected request again, straight away
                history.append(_concretise(rng, b))
        if rng.random() < 0.35:
            # the process's first use of the library is the compilation of a C kernel; later that
            # kernel is dropped and collected while requests keep coming
            tms = [b for b in base if b["kind"] == "tm"]
            if tms:
                b = dict(rng.choice(tms))
                if b["backend"] != "cffi":
                    b["backend"] = "cffi"
                    b["key"] = f"tm|{b['prob']}|cffi"
                    base.append(b)
                history.insert(0, _concretise(rng, b))
                at = rng.randint(1, max(1, len(history) // 2))
                history[at:at] = [{"kind": "cache_clear"}, {"kind": "gc"}]
        return history

    # one baseline interpreter serves two variant interpreters (two histories over the same requests,
    # two hash seeds): half as many baseline starts per variant history
    h1 = gen_history()
    hs1 = rng.randrange(1, 2 ** 32)
    variants = [{"hashseed": hs1, "history": h1}]
    if rng.random() < 0.8:
        variants.append({"hashseed": rng.randrange(1, 2 ** 32), "history": gen_history()})
    return {"engine": "P", "run_seed": seed, "hashseed": seed % 8, "base": base, "variants": variants}


def _data_key(inputs):
    import hashlib

    return hashlib.blake2b(json.dumps(inputs, sort_keys=True).encode(), digest_size=6).hexdigest()


def _concretise(rng, b, canonical=False):
    """Turn an abstract request into a concrete one (entry point, option order, omissions)."""
    if b["kind"] == "gen":
        if canonical or rng.random() < 0.45:
            return {"kind": "gen_lib", "assignment": b["assignment"], "formats": dict(b["formats"]),
                    "kinds": b["kinds"], "lang": b["lang"], "key": b["key"]}
        opts = [list(x) for x in b["formats"]]
        # omit all-dense formats sometimes (unmentioned tensors are dense)
        opts = [o for o in opts if not (set(o[1]) <= {"d"} and rng.random() < 0.6)]
        rng.shuffle(opts)
        return {"kind": "gen_cli", "assignment": b["assignment"], "format_options": opts,
                "kinds": b["kinds"], "lang": b["lang"], "to_file": rng.random() < 0.35, "key": b["key"]}
    if b["kind"] == "tm":
        items = [list(x) for x in b["formats"]]
        if not canonical:
            rng.shuffle(items)
            if rng.random() < 0.25:
                # straight into the cache with the formats in this (possibly different) order: a
                # Problem with another format order is another problem
                same_order = items == [list(x) for x in b["formats"]]
                return {"kind": "tm_private", "assignment": b["assignment"], "formats_items": items,
                        "backend": b["backend"], "prob": b["prob"],
                        "canon_order": [x[0] for x in b["formats"]],
                        "key": b["key"] if same_order else b["key"] + "|order:" + ",".join(i[0] for i in items)}
        return {"kind": "tm", "assignment": b["assignment"], "formats_items": items,
                "backend": b["backend"], "prob": b["prob"], "key": b["key"],
                "canon_order": [x[0] for x in b["formats"]]}
    if b["kind"] == "eval":
        items = list(b["inputs"].items())
        if not canonical:
            rng.shuffle(items)  # keyword arguments in another order are the same request
        return {"kind": "eval", "assignment": b["assignment"], "out_format": b["out_format"],
                "inputs": dict(items), "backend": b["backend"], "key": b["key"]}
    raise ValueError(b["kind"])


# -------------------------------------------------------------------------- execution
def _child(history, hashseed, timeout=240):
    env = dict(os.environ)
    env["PYTHONHASHSEED"] = str(hashseed)
    env["PYTHONPATH"] = VERIF
    env.pop("LD_PRELOAD", None)
    env["PYTHONDONTWRITEBYTECODE"] = "1"
    p = subprocess.run([PYTHON, "-m", "tsim.pchild"], input=json.dumps(history), text=True,
                       capture_output=True, env=env, cwd=VERIF, timeout=timeout)
    for line in p.stdout.splitlines():
        if line.startswith("@@"):
            return json.loads(line[2:]), None
    return None, f"child exit {p.returncode}: {p.stderr[-1500:]}"


def _outcome(o):
    if o["outcome"] == "refused":
        # compared by outcome class only, never by message text
        c = o.get("class", "")
        if c.startswith(("exit:",)):
            return "refused"
        if c.startswith("traceback:"):
            return "traceback"
        return "refused"
    if o["outcome"] in ("text", "value"):
        return o["outcome"] + ":" + o["digest"]
    return o["outcome"]


def _baseline_history(plan):
    rng = random.Random(plan["run_seed"] ^ 0xBA5E)
    return [_concretise(rng, b, canonical=True) for b in sorted(plan["base"], key=lambda b: b["key"])]


def _run_pair(plan):
    """Two runs whose baseline interpreters disagreed on one request key."""
    res = {"verdict": "ok", "violations": [], "stats": {}, "probes": {}, "skip": None, "digest": "pair"}
    outs = []
    for sub in plan["pair"]:
        obs, err = _child(_baseline_history(sub), 0)
        if obs is None:
            res["verdict"] = "harness_error"
            res["error"] = err
            return res
        outs.append({o["key"]: _outcome(o) for o in obs if o.get("key")})
    common = set(outs[0]) & set(outs[1])
    bad = sorted(k for k in common if outs[0][k] != outs[1][k])
    if bad:
        res["verdict"] = "violation"
        res["violations"] = [{"properties": ["C15"], "oracle": "baseline_depends_on_history", "phase": "compare",
                              "twin": 0, "detail": [bad[0], outs[0][bad[0]], outs[1][bad[0]]]}]
    return res


def cross_check(agg):
    """Across the runs of a batch: the same request key must have the same baseline digest."""
    seen = {}
    out = []
    plans = agg["extra"].get("plan", [])
    canons = agg["extra"].get("canon", [])
    for plan, canon in zip(plans, canons):
        for k, v in canon.items():
            if k in seen and seen[k][0] != v and len(out) < 3:
                out.append({"i": -1, "seed": plan["run_seed"],
                            "plan": {"engine": "P", "run_seed": plan["run_seed"], "hashseed": 0,
                                     "pair": [seen[k][1], plan]},
                            "violations": [{"properties": ["C15"], "oracle": "baseline_depends_on_history",
                                            "phase": "cross-run", "twin": 0, "detail": [k, seen[k][0], v]}]})
            seen.setdefault(k, (v, plan))
    return out


def run_plan(plan, cfg=None):
    if "pair" in plan:
        return _run_pair(plan)
    rng = random.Random(plan["run_seed"] ^ 0xBA5E)
    baseline_hist = [_concretise(rng, b, canonical=True) for b in sorted(plan["base"], key=lambda b: b["key"])]
    vio = []

    def viol(oracle, *detail):
        vio.append({"properties": ["C15"], "oracle": oracle, "phase": "compare", "twin": 0,
                    "detail": json.loads(json.dumps(detail, default=repr))})

    res = {"verdict": "ok", "violations": [], "stats": {}, "probes": {}, "skip": None}
    variants = _variants(plan)
    try:
        bobs, berr = _child(baseline_hist, 0)
        vall = [_child(v["history"], v["hashseed"]) for v in variants]
    except subprocess.TimeoutExpired:
        res["verdict"] = "inconclusive"
        res["skip"] = "child_timeout"
        return res
    if bobs is None or any(vo is None for vo, _ in vall):
        # an interpreter that dies while serving requests is a crash of the system under test only
        # if it is the variant history that kills it deterministically; report as harness error
        res["verdict"] = "harness_error"
        res["error"] = berr or [e for _, e in vall if e][0]
        return res
    for o in bobs + [o for vo, _ in vall for o in vo]:
        if o["outcome"] == "harness_error":
            res["verdict"] = "harness_error"
            res["error"] = o.get("error")
            res["tb"] = o.get("tb")
            return res
    canon = {}
    for o in bobs:
        if o.get("key") is None:
            continue
        oc = _outcome(o)
        if o["key"] in canon and canon[o["key"]] != oc:
            viol("same_request_different_output_in_one_process", o["key"], canon[o["key"]], oc)
        canon[o["key"]] = oc
    stats = {"requests": sum(len(vo) for vo, _ in vall), "variant_interpreters": len(vall),
             "cli_requests": 0, "cli_to_file": 0, "cache_clear": 0,
             "eviction_flood": 0, "private_cache_requests": 0, "refused_requests": 0,
             "requests_after_eviction": 0, "requests_after_clear": 0}
    triples = set()
    digest_src = []
    for vi, ((vobs, _), var) in enumerate(zip(vall, variants)):
        _compare_variant(vi, vobs, var, canon, stats, triples, viol, res)
        digest_src.append([[o.get("key"), _outcome(o), o.get("same_object_as")] for o in vobs])
    vobs = [o for vo, _ in vall for o in vo]
    return _finish(res, vio, stats, triples, digest_src, vobs, bobs, canon, plan)


def _variants(plan):
    if "variants" in plan:
        return plan["variants"]
    return [{"hashseed": plan["child_hashseed"], "history": plan["history"]}]  # replay files of the first version


def _compare_variant(vi, vobs, var, canon, stats, triples, viol, res):
    history = var["history"]
    state = "cold"
    seen_keys = set()
    prob_of_first = {}
    for o, rq in zip(vobs, history):
        k = rq["kind"]
        if k == "cache_clear":
            stats["cache_clear"] += 1
            state = "cleared"
            seen_keys = set()
            prob_of_first = {}
            continue
        if k == "gc":
            stats["gc_collect"] = stats.get("gc_collect", 0) + 1
            continue
        if k == "evict":
            stats["eviction_flood"] += 1
            state = "evicted"
            if o.get("cache_size", 0) < 128:
                res.setdefault("notes", []).append("eviction flood did not fill the cache")
            continue
        key = rq["key"]
        oc = _outcome(o)
        if k == "gen_cli":
            stats["cli_requests"] += 1
            stats["cli_to_file"] += 1 if rq.get("to_file") else 0
            if o.get("stdout_not_empty_with_o"):
                stats["cli_printed_to_stdout_with_o"] = stats.get("cli_printed_to_stdout_with_o", 0) + 1
        if k == "tm_private":
            stats["private_cache_requests"] += 1
        if oc == "refused":
            stats["refused_requests"] += 1
        if oc == "traceback":
            # a CLI traceback is C08's business unless the library accepted the same request
            if canon.get(key, "").startswith("text:"):
                viol("cli_traceback_where_library_returns_code", key)
            continue
        cstate = state if key not in seen_keys else "warm"
        if state == "evicted":
            stats["requests_after_eviction"] += 1
        if state == "cleared":
            stats["requests_after_clear"] += 1
        triples.add((key, cstate))
        seen_keys.add(key)
        if o["outcome"] == "method":
            first = o["same_object_as"]
            if first != o["i"]:
                other = history[first]
                # tensor_method canonicalises the format order, the private entry does not
                if other["prob"] != rq["prob"]:
                    viol("cached_kernel_shared_across_problems", rq["prob"], other["prob"])
                elif _order_sig(rq) != _order_sig(other):
                    # the same assignment and formats listed in another order: today a different
                    # Problem, but methods take keyword arguments only, so sharing would be
                    # harmless - recorded, not a violation
                    stats["kernel_shared_across_format_orders"] = stats.get(
                        "kernel_shared_across_format_orders", 0) + 1
            continue
        want = canon.get(key)
        if want is None:
            canon[key] = oc
        elif want != oc and not (o.get("digest_raw") and want == "text:" + o["digest_raw"]):
            how = {"gen_cli": "cli", "gen_lib": "library", "eval": "evaluate"}.get(k, k)
            viol("same_request_different_output", key, f"variant {vi}[{how}, hashseed={var['hashseed']}, "
                 f"cache={cstate}]={oc}", f"baseline={want}")


def _finish(res, vio, stats, triples, digest_src, vobs, bobs, canon, plan):
    res["stats"] = stats
    res["probes"] = {"variant_used_other_hashseed": 1}
    seen = set()
    out = []
    for v in vio:
        if v["oracle"] not in seen:
            seen.add(v["oracle"])
            out.append(v)
    res["violations"] = out
    if out:
        res["verdict"] = "violation"
    res["steps"] = len(vobs) + len(bobs)
    import hashlib

    res["digest"] = hashlib.blake2b(json.dumps(digest_src).encode(), digest_size=8).hexdigest()
    res["extra"] = {"triples": sorted([k, s] for k, s in triples), "canon": canon,
                    "plan": {"run_seed": plan["run_seed"], "base": plan["base"]}}
    res["shape"] = res["digest"]
    res["nontrivial"] = len(triples) > 1
    res["n_triples"] = len(triples)
    return res


def _order_sig(rq):
    """Format order as the cache sees it: tensor_method re-orders by appearance, the private entry
    keeps the given order."""
    if rq["kind"] == "tm_private":
        return ",".join(i[0] for i in rq["formats_items"])
    return ",".join(rq["canon_order"])


def fingerprint(plan, violation):
    if "pair" in plan:
        return f"{violation['oracle']} @ {(violation.get('detail') or [''])[0]}"
    d = violation.get("detail") or []
    return f"{violation['oracle']} @ {d[0] if d else ''}"


def sample(plan, res):
    if "pair" in plan:
        return {"pair_of_runs": [p["run_seed"] for p in plan["pair"]]}
    vs = _variants(plan)
    return {"variant_hashseeds": [v["hashseed"] for v in vs],
            "history": [{k: v for k, v in rq.items() if k not in ("inputs", "key", "prob")}
                        for rq in vs[0]["history"][:12]],
            "history_lengths": [len(v["history"]) for v in vs], "distinct_requests": len(plan["base"]),
            "verdict": res["verdict"], "digest": res.get("digest")}


def summarise_extra(agg):
    triples = set()
    canon = {}
    conflicts = []
    for e in agg["extra"].get("triples", []):
        for k, s in e:
            triples.add((k, s))
    for c in agg["extra"].get("canon", []):
        for k, v in c.items():
            if k in canon and canon[k] != v:
                conflicts.append([k, canon[k], v])
            canon.setdefault(k, v)
    return {"distinct_request_cache_state_pairs": len(triples), "distinct_request_keys": len(canon),
            "cross_run_conflicts": conflicts[:5]}


def shrink_candidates(plan):
    if "pair" in plan:
        return
    vs = _variants(plan)
    base_plan = copy.deepcopy(plan)
    base_plan.pop("history", None)
    base_plan.pop("child_hashseed", None)
    base_plan["variants"] = copy.deepcopy(vs)
    # one variant interpreter is enough if the disagreement is with the baseline
    if len(vs) > 1:
        for keep in range(len(vs)):
            p = copy.deepcopy(base_plan)
            p["variants"] = [copy.deepcopy(vs[keep])]
            yield p
    for vi, var in enumerate(vs):
        h = var["history"]
        n = len(h)
        chunk = max(1, n // 2)
        while chunk >= 1:
            for start in range(0, n, chunk):
                hh = h[:start] + h[start + chunk:]
                if hh and len(hh) < n:
                    p = copy.deepcopy(base_plan)
                    p["variants"][vi]["history"] = hh
                    yield p
            if chunk == 1:
                break
            chunk //= 2
    if len(plan["base"]) > 1:
        used = {rq.get("key", "").split("|order:")[0] for var in vs for rq in var["history"]}
        p = copy.deepcopy(base_plan)
        p["base"] = [b for b in plan["base"] if b["key"] in used]
        if len(p["base"]) < len(plan["base"]):
            yield p
    for vi, var in enumerate(vs):
        if var["hashseed"] != 0:
            p = copy.deepcopy(base_plan)
            p["variants"][vi]["hashseed"] = 0
            yield p
