"""Engine G: long generation histories in many interpreters, cross-compared.

Every worker process is ONE history: it generates code for requests drawn, chunk by chunk, from a
universe of a few hundred related problems (catalogue and seeded problems, each with its twins:
one operator exchanged, operators / index lists re-drawn, a literal spelled as the other numeric
type, a tensor or an index renamed) x kernel kinds x language, in its own seeded order, under its
own PYTHONHASHSEED (eight buckets).  Each observation is (request, digest of the text or refusal
class).  Oracle (C15, first clause): the same request has the same outcome at every position of
every history in every process - inside one process (checked at once) and across the worker
processes of a batch (cross_check).  A disagreement is re-run as a *pair plan*: the two histories,
as explicit request lists, in two fresh interpreters; it is minimised over those lists.

A generation costs milliseconds, so a quick batch makes tens of thousands of observations of about
a thousand requests - two orders of magnitude more than engine P, which keeps the entry points,
the kernel cache and the fresh-interpreter-per-history dimension.
"""

from __future__ import annotations

import hashlib
import json
import os
import random
import subprocess
import sys

from ..boot import PYTHON, VERIF, repo_src
from ..workload import CATALOGUE, expr_to_str, gen_problem, problem_from_text, swarm_features

NAME = "G"
WATCHDOG_S = 120
CHUNK = 24
GEN_BUDGET_S = 4.0
KIND_SETS = [["evaluate"], ["compute"], ["assemble"], ["assemble", "compute"],
             ["evaluate", "assemble", "compute"], ["compute", "evaluate"]]
RULE = (
    "Each evaluation is one chunk of 24 code-generation requests appended to the history of one of "
    "16 long-lived interpreters (8 distinct PYTHONHASHSEEDs); requests are drawn from a universe of "
    "~1000 (problem, kernel kinds, language) triples built from the catalogue and ~120 seeded "
    "problems with their twins (one operator exchanged, operators / index lists re-drawn, literal "
    "as the other numeric type, tensor or index renamed). Every request's text digest must be the "
    "same at every position of every history in every process. distinct_nontrivial counts distinct "
    "requests that were observed in at least two different interpreters."
)

_universe_cache = {}


def universe(useed: int):
    """Deterministic list of requests: (key, assignment, formats dict, kinds, lang)."""
    if useed in _universe_cache:
        return _universe_cache[useed]
    from . import process as P

    rng = random.Random(useed ^ 0x6E6E)
    probs = []

    def family(prob):
        fam = [prob]
        for fn in (P._operator_twin, P._literal_twin, P._structure_twin, P._structure_twin):
            t = fn(rng, prob)
            if t is not None:
                fam.append(t)
        names = list(prob["inputs"].keys())
        if names and rng.random() < 0.5:
            fam.append(P._rename(prob, {names[0]: names[0] + "x"}, {}))
        return fam

    for a, fm in CATALOGUE:
        probs += family(problem_from_text(a, fm))
    for _ in range(120):
        feat = swarm_features(rng)
        feat["broadcast_target"] = False
        feat["max_order"] = min(feat["max_order"], 3)
        feat["depth"] = max(1, min(feat["depth"], 2))
        prob = gen_problem(rng, feat)
        prob["assignment"] = f"A({','.join(prob['target'])}) = {expr_to_str(prob['expr'])}"
        prob["target_name"] = "A"
        probs += family(prob)
    reqs = []
    seen = set()
    for prob in probs:
        pk = P._problem_key(prob)
        for _ in range(2):
            kinds = rng.choice(KIND_SETS)
            lang = rng.choice(["c", "llvm"])
            key = f"code|{pk}|{'+'.join(kinds)}|{lang}"
            if key in seen:
                continue
            seen.add(key)
            reqs.append({"key": key, "assignment": prob["assignment"],
                         "formats": dict(P._canon_formats(prob)), "kinds": kinds, "lang": lang})
    _universe_cache[useed] = reqs
    return reqs


# ------------------------------------------------------------------------------ execution
_st = {"loaded": False, "seen": {}, "n": 0, "timeouts": set(), "hist": []}


def _load():
    if _st["loaded"]:
        return
    src = repo_src()
    if src not in sys.path:
        sys.path.insert(0, src)
    import tensora  # noqa: F401

    got = os.path.dirname(os.path.dirname(os.path.abspath(tensora.__file__)))
    if os.path.realpath(got) != os.path.realpath(src):
        raise RuntimeError(f"tensora imported from {got}, expected {src}")
    _st["loaded"] = True


class _Timeout(BaseException):
    pass


def execute(req):
    """-> outcome string: 'text:<digest>' | 'refused:<class>' | 'timeout'"""
    import signal

    from returns.result import Failure, Success
    from tensora.expression import parse_assignment
    from tensora.format import parse_format
    from tensora.generate import Language, generate_code
    from tensora.kernel_type import KernelType
    from tensora.problem import make_problem

    def alarm(signum, frame):
        raise _Timeout()

    old = signal.signal(signal.SIGALRM, alarm)
    signal.setitimer(signal.ITIMER_REAL, GEN_BUDGET_S)
    try:
        pa = parse_assignment(req["assignment"])
        if not isinstance(pa, Success):
            return "refused:parse"
        fm = {}
        for k, v in req["formats"].items():
            pf = parse_format(v)
            if not isinstance(pf, Success):
                return "refused:format"
            fm[k] = pf.unwrap()
        pr = make_problem(pa.unwrap(), fm)
        if not isinstance(pr, Success):
            return "refused:problem:" + type(pr.failure()).__name__
        try:
            r = generate_code(pr.unwrap(), [KernelType[k] for k in req["kinds"]], Language[req["lang"]])
        except _Timeout:
            raise
        except Exception as e:
            return "refused:raised:" + type(e).__name__
        if isinstance(r, Failure):
            return "refused:failure:" + type(r.failure()).__name__
        return "text:" + hashlib.blake2b(r.unwrap().encode(), digest_size=10).hexdigest()
    except _Timeout:
        return "timeout"
    finally:
        signal.setitimer(signal.ITIMER_REAL, 0)
        signal.signal(signal.SIGALRM, old)


def boot(cfg=None):
    _load()


def gen_plan(seed, cfg):
    useed = (cfg or {}).get("batch_seed", 0)
    rng = random.Random(seed)
    n = len(universe(useed))
    # related requests close together: pick a few anchors and their neighbours in the universe list
    # (a family is contiguous there), plus uniform picks
    idx = []
    while len(idx) < CHUNK:
        if rng.random() < 0.5:
            a = rng.randrange(n)
            idx += [min(n - 1, max(0, a + rng.randint(-6, 6))) for _ in range(rng.randint(2, 5))]
        else:
            idx.append(rng.randrange(n))
    return {"engine": "G", "run_seed": seed, "hashseed": seed % 8, "universe_seed": useed,
            "reqs": idx[:CHUNK]}


def run_plan(plan, cfg=None):
    if "pair" in plan:
        return _run_pair(plan)
    if "single" in plan:
        return _run_single(plan)
    _load()
    uni = universe(plan["universe_seed"])
    res = {"verdict": "ok", "violations": [], "stats": {}, "probes": {}, "skip": None}
    obs = []
    seen = _st["seen"]

    def cls(oc):
        # a refusal is compared as a refusal, whatever its class or message: the statement is about
        # generated text, and which of several defects of a request is reported may legitimately
        # depend on iteration order
        return "refused" if oc.startswith("refused") else oc

    start = _st["n"]
    stats = {"requests": 0, "refused": 0, "timeouts": 0, "repeats_in_this_interpreter": 0}
    for ri in plan["reqs"]:
        rq = uni[ri]
        if ri in _st["timeouts"]:
            continue
        oc = execute(rq)
        _st["n"] += 1
        _st["hist"].append(ri)
        stats["requests"] += 1
        if oc == "timeout":
            stats["timeouts"] += 1
            _st["timeouts"].add(ri)
            continue
        if oc.startswith("refused"):
            stats["refused"] += 1
        oc = cls(oc)
        if ri in seen:
            stats["repeats_in_this_interpreter"] += 1
            if seen[ri][0] != oc:
                res["violations"].append({
                    "properties": ["C15"], "oracle": "same_request_different_output_in_one_process",
                    "phase": "generate", "twin": 0,
                    "detail": [rq["key"], seen[ri][0], oc, f"positions {seen[ri][1]} and {_st['n']}"]})
        else:
            seen[ri] = (oc, _st["n"])
        obs.append([ri, oc])
    if res["violations"]:
        res["verdict"] = "violation"
        # the plan of record is this interpreter's whole history up to the disagreement: it replays in
        # one fresh interpreter (the chunk alone would not)
        bad_key = res["violations"][0]["detail"][0]
        bad_ri = next(i for i in reversed(_st["hist"]) if uni[i]["key"] == bad_key)
        single = {"hashseed": int(os.environ.get("PYTHONHASHSEED", "0") or 0), "reqs": list(_st["hist"])}
        useed = plan["universe_seed"]
        seed = plan["run_seed"]
        plan.clear()
        plan.update({"engine": "G", "run_seed": seed, "hashseed": single["hashseed"] % 8, "universe_seed": useed,
                     "key_index": bad_ri, "single": single})
    res["stats"] = stats
    res["steps"] = stats["requests"]
    res["digest"] = hashlib.blake2b(json.dumps(obs).encode(), digest_size=8).hexdigest()
    if "single" in plan:
        res["digest"] = "single"
        return res
    res["extra"] = {"g": {"pid": os.getpid(), "hashseed": int(os.environ.get("PYTHONHASHSEED", "0") or 0),
                          "start": start, "reqs": plan["reqs"], "obs": obs,
                          "universe_seed": plan["universe_seed"]}}
    res["shape"] = None
    return res


# ---------------------------------------------------------------- cross-process comparison
def cross_check(agg):
    """The same request must have the same outcome in every interpreter of the batch."""
    chunks = sorted(agg["extra"].get("g", []), key=lambda c: (c["pid"], c["start"]))
    first = {}  # request index -> (outcome, pid, position in that pid's chunk list)
    hist = {}  # pid -> list of chunks in order
    out = []
    per_req_pids = {}
    for c in chunks:
        h = hist.setdefault(c["pid"], [])
        h.append(c)
        for ri, oc in c["obs"]:
            per_req_pids.setdefault(ri, set()).add(c["pid"])
            if ri not in first:
                first[ri] = (oc, c["pid"], len(h))
            elif first[ri][0] != oc and first[ri][1] != c["pid"] and len(out) < 3 \
                    and not any(o["violations"][0]["detail"][0] == ri for o in out):
                oa, pa, na = first[ri]

                def reqs_of(pid, nchunks):
                    r = []
                    for cc in hist[pid][:nchunks]:
                        r += cc["reqs"]
                    return r

                ha = reqs_of(pa, na)
                hb = reqs_of(c["pid"], len(h))
                plan = {"engine": "G", "run_seed": ri, "hashseed": 0, "universe_seed": c["universe_seed"],
                        "key_index": ri,
                        "pair": [{"hashseed": hist[pa][0]["hashseed"], "reqs": _upto(ha, ri)},
                                 {"hashseed": c["hashseed"], "reqs": _upto(hb, ri)}]}
                out.append({"i": -1, "seed": ri, "plan": plan,
                            "violations": [{"properties": ["C15"], "oracle": "same_request_different_output",
                                            "phase": "cross-process", "twin": 0,
                                            "detail": [ri, universe(c["universe_seed"])[ri]["key"], oa, oc]}]})
    agg["extra"]["g_summary"] = [{"distinct_requests": len(first),
                                  "requests_seen_in_two_or_more_interpreters":
                                      sum(1 for v in per_req_pids.values() if len(v) > 1),
                                  "interpreters": len(hist),
                                  "longest_history": max((sum(len(c["reqs"]) for c in h) for h in hist.values()),
                                                         default=0)}]
    agg["extra"].pop("g", None)
    return out


def _upto(reqs, ri):
    """History up to and including the LAST occurrence of request ri."""
    last = max(i for i, r in enumerate(reqs) if r == ri)
    return reqs[: last + 1]


def _child(useed, reqs, hashseed, timeout=600, every=None):
    env = dict(os.environ)
    env["PYTHONHASHSEED"] = str(hashseed)
    env["PYTHONPATH"] = VERIF
    env.pop("LD_PRELOAD", None)
    env["PYTHONDONTWRITEBYTECODE"] = "1"
    p = subprocess.run([PYTHON, "-m", "tsim.engines.genhist"], input=json.dumps({"universe_seed": useed, "reqs": reqs, "every": every}),
                       text=True, capture_output=True, env=env, cwd=VERIF, timeout=timeout)
    for line in p.stdout.splitlines():
        if line.startswith("@@"):
            return json.loads(line[2:]), None
    return None, f"child exit {p.returncode}: {p.stderr[-1500:]}"


def _run_single(plan):
    """One history in one fresh interpreter: every occurrence of the request must give one outcome."""
    res = {"verdict": "ok", "violations": [], "stats": {}, "probes": {}, "skip": None, "digest": "single"}
    ri = plan["key_index"]
    side = plan["single"]
    if side["reqs"].count(ri) < 2:
        return res
    try:
        obs, err = _child(plan["universe_seed"], side["reqs"], side["hashseed"], every=ri)
    except subprocess.TimeoutExpired:
        res["verdict"] = "inconclusive"
        res["skip"] = "child_timeout"
        return res
    if obs is None:
        res["verdict"] = "harness_error"
        res["error"] = err
        return res
    outs = [o for o in obs.get("every", []) if o != "timeout"]
    if len(set(outs)) > 1:
        res["verdict"] = "violation"
        res["violations"] = [{"properties": ["C15"], "oracle": "same_request_different_output_in_one_process",
                              "phase": "generate", "twin": 0,
                              "detail": [universe(plan["universe_seed"])[ri]["key"], outs[0],
                                         next(o for o in outs if o != outs[0])]}]
    return res


def _run_pair(plan):
    res = {"verdict": "ok", "violations": [], "stats": {}, "probes": {}, "skip": None, "digest": "pair"}
    outs = []
    ri = plan["key_index"]
    for side in plan["pair"]:
        if ri not in side["reqs"]:
            return res
        try:
            obs, err = _child(plan["universe_seed"], side["reqs"], side["hashseed"])
        except subprocess.TimeoutExpired:
            res["verdict"] = "inconclusive"
            res["skip"] = "child_timeout"
            return res
        if obs is None:
            res["verdict"] = "harness_error"
            res["error"] = err
            return res
        outs.append(obs.get(str(ri)))
    if None not in outs and "timeout" not in outs and outs[0] != outs[1]:
        res["verdict"] = "violation"
        res["violations"] = [{"properties": ["C15"], "oracle": "same_request_different_output",
                              "phase": "cross-process", "twin": 0,
                              "detail": [ri, universe(plan["universe_seed"])[ri]["key"], outs[0], outs[1]]}]
    return res


def fingerprint(plan, violation):
    d = violation.get("detail") or []
    return f"{violation['oracle']} @ {d[1] if len(d) > 1 else ''}"


def sample(plan, res):
    uni = universe(plan["universe_seed"])
    if "pair" in plan:
        return {"pair_history_lengths": [len(s["reqs"]) for s in plan["pair"]]}
    if "single" in plan:
        return {"history_length": len(plan["single"]["reqs"])}
    return {"chunk": [uni[i]["key"] for i in plan["reqs"][:6]], "chunk_length": len(plan["reqs"]),
            "verdict": res["verdict"], "digest": res.get("digest")}


def distinct_nontrivial(agg):
    """Distinct requests observed in at least two different interpreters (the rule of RULE)."""
    s = (agg["extra"].get("g_summary") or [{}])[0]
    return int(s.get("requests_seen_in_two_or_more_interpreters", 0))


def summarise_extra(agg):
    s = (agg["extra"].get("g_summary") or [{}])[0]
    return dict(s)


def shrink_candidates(plan):
    import copy

    if "single" in plan:
        ri = plan["key_index"]
        reqs = plan["single"]["reqs"]
        n = len(reqs)
        chunk = max(1, n // 2)
        while chunk >= 1 and n:
            for start in range(0, n, chunk):
                nb = reqs[:start] + reqs[start + chunk:]
                if len(nb) < n and nb.count(ri) >= 2:
                    p = copy.deepcopy(plan)
                    p["single"]["reqs"] = nb
                    yield p
            if chunk == 1:
                break
            chunk //= 2
        return
    if "pair" not in plan:
        return
    ri = plan["key_index"]
    for si, side in enumerate(plan["pair"]):
        reqs = side["reqs"]
        body = reqs[:-1]  # the last request is the disagreeing one
        n = len(body)
        chunk = max(1, n // 2)
        while chunk >= 1 and n:
            for start in range(0, n, chunk):
                nb = body[:start] + body[start + chunk:]
                if len(nb) < n:
                    p = copy.deepcopy(plan)
                    p["pair"][si]["reqs"] = nb + [ri]
                    yield p
            if chunk == 1:
                break
            chunk //= 2
    for si, side in enumerate(plan["pair"]):
        if side["hashseed"] != 0:
            p = copy.deepcopy(plan)
            p["pair"][si]["hashseed"] = 0
            yield p


def _main():
    spec = json.loads(sys.stdin.read())
    out_fd = os.fdopen(os.dup(1), "w")
    os.dup2(2, 1)
    _load()
    uni = universe(spec["universe_seed"])
    last = {"every": []}
    for ri in spec["reqs"]:
        oc = execute(uni[ri])
        oc = "refused" if oc.startswith("refused") else oc
        last[str(ri)] = oc
        if spec.get("every") == ri:
            last["every"].append(oc)
    out_fd.write("@@" + json.dumps(last) + "\n")
    out_fd.flush()


if __name__ == "__main__":
    _main()
