"""Engine K: one problem's kernels on the simulated heap.

History per run:   evaluate ; assemble ; compute ; (re-value ; compute ; evaluate)*
executed twice as *garbage twins* (different payload-garbage / red-zone / poison bytes).
Oracles of C02, C04 and C05 are evaluated on every step; each violation names the
properties it falsifies.
"""

from __future__ import annotations

import hashlib
import json

from .. import decode as dec
from ..boot import SIM, rearm_watchdog, set_capacity
from ..workload import build_structure, pack_f64, pack_i32, parse_fmt

KINDS = ("assemble", "compute", "evaluate")

# decode() problem -> properties it falsifies
DECODE_PROPS = {
    "dimensions": ("C02",),
    "mode_types": ("C02",),
    "mode_ordering": ("C02",),
    "mode_ordering_not_permutation": ("C02",),
    "pos_not_live": ("C02", "C05"),
    "pos_length": ("C02",),
    "pos_first_not_zero": ("C02",),
    "pos_decreasing": ("C02",),
    "crd_not_live": ("C02", "C05"),
    "crd_short": ("C02", "C05"),
    "crd_not_strictly_increasing": ("C02",),
    "crd_out_of_range": ("C02",),
    "vals_not_live": ("C02", "C05"),
    "vals_short": ("C02", "C05"),
}
HEAP_PROPS = {
    "overflow": ("C05",),
    "underflow": ("C05",),
    "write_after_release": ("C05",),
    "bad_realloc": ("C05",),
    "double_free": ("C05",),
    "free_unknown": ("C05",),
    "absurd_allocation": ("C05",),
}


class Skip(Exception):
    pass


class GenerationTimeout(BaseException):
    pass


GENERATION_BUDGET_S = 8.0


def _phase(p):
    cb = SIM.phase_cb
    if cb is not None:
        cb(p)


class KernelSet:
    """The three kernels of one problem, generated and JIT-compiled the way tensora does it."""

    def __init__(self, assignment: str, formats: dict, capacity: int, backend_c: bool = False,
                 separate=None):
        from returns.result import Failure, Success
        from tensora.compile import tensor_cdefs
        from tensora.compile._compile_llvm import compile_module
        from tensora.expression import parse_assignment
        from tensora.format import parse_format
        from tensora.generate import generate_module_tensora
        from tensora.kernel_type import KernelType
        from tensora.problem import make_problem

        self.capacity_knob = set_capacity(capacity)
        pa = parse_assignment(assignment)
        if not isinstance(pa, Success):
            raise Skip("parse:" + type(pa.failure()).__name__)
        fm = {}
        for k, v in formats.items():
            pf = parse_format(v)
            if not isinstance(pf, Success):
                raise Skip("format:" + type(pf.failure()).__name__)
            fm[k] = pf.unwrap()
        pr = make_problem(pa.unwrap(), fm)
        if not isinstance(pr, Success):
            raise Skip("problem:" + type(pr.failure()).__name__)
        self.problem = p = pr.unwrap()
        self.inconsistent_kinds = None
        kinds = [KernelType.assemble, KernelType.compute, KernelType.evaluate]

        def gen(ks):
            try:
                r = generate_module_tensora(p, ks)
            except Exception as e:  # totality of generation is C08, not ours
                return None, "generate:" + type(e).__name__
            if isinstance(r, Failure):
                return None, "generate:" + type(r.failure()).__name__
            return r.unwrap(), None

        import signal

        def _alarm(signum, frame):
            raise GenerationTimeout()

        old = signal.signal(signal.SIGALRM, _alarm)
        signal.setitimer(signal.ITIMER_REAL, GENERATION_BUDGET_S)
        self.engines = None
        try:
            module, why = gen(kinds)
            if module is None:
                alone, _ = gen([KernelType.evaluate])
                if alone is not None:
                    self.inconsistent_kinds = why
                    raise Skip("kinds_inconsistent")
                raise Skip(why)
            self.lib = None
            if backend_c:
                self._compile_c(p, kinds)
            elif separate:
                # each kind generated and compiled on its own, in the plan's order (what three
                # separate `tensora -t <kind>` requests give): the kinds must be mutually consistent
                # however they are requested
                self.engines = {}
                for kname in separate:
                    m1, why1 = gen([KernelType[kname]])
                    if m1 is None:
                        self.inconsistent_kinds = f"{kname} alone: {why1}"
                        raise Skip("kinds_inconsistent")
                    try:
                        self.engines[kname] = compile_module(m1)
                    except Exception as e:
                        raise Skip("compile:" + type(e).__name__)
            else:
                try:
                    self.engine = compile_module(module)
                except Exception as e:
                    raise Skip("compile:" + type(e).__name__)
        except GenerationTimeout:
            raise Skip("generate:timeout")
        finally:
            signal.setitimer(signal.ITIMER_REAL, 0)
            signal.signal(signal.SIGALRM, old)
        self.names = list(p.formats.keys())
        self.out_name = p.assignment.target.name
        sig = f"int32_t (*)({', '.join(['void *'] * len(self.names))})"
        if self.lib is not None:
            self.fn = {k: getattr(self.lib, k) for k in KINDS}
        else:
            self.fn = {}
            for k in KINDS:
                addr = (self.engines[k] if self.engines else self.engine).get_function_address(k)
                if not addr:
                    self.inconsistent_kinds = f"module generated for [{k}] has no function {k}"
                    raise Skip("kinds_inconsistent")
                self.fn[k] = tensor_cdefs.cast(sig, addr)
        self.out_format = p.formats[self.out_name]

    def _compile_c(self, problem, kinds):
        """The C text of all three kernels, compiled by gcc through cffi exactly as tensora's C
        back end does it (same headers, same flags), allocator calls routed to the simulated
        heap by the force-included tsim_alloc.h."""
        import re
        import shutil
        import tempfile

        from cffi import FFI
        from returns.result import Success
        from tensora.compile._cffi_ownership import taco_type_header, tensor_cdefs
        from tensora.compile._compile_cffi import taco_define_header
        from tensora.generate import Language, generate_code

        r = generate_code(problem, kinds, Language.c)
        if not isinstance(r, Success):
            raise Skip("generate_c:" + type(r.failure()).__name__)
        source = r.unwrap()
        ffibuilder = FFI()
        ffibuilder.include(tensor_cdefs)
        found = re.findall(r"int(?:32_t)? (assemble|compute|evaluate)\(([^)]*)\)", source)
        if sorted(n for n, _ in found) != sorted(KINDS):
            raise Skip("generate_c:signatures")
        for name, args in found:
            ffibuilder.cdef(f"int32_t {name}({args});")
        ffibuilder.set_source("taco_kernel", taco_define_header + taco_type_header + source,
                              extra_compile_args=["-Wno-unused-variable", "-Wno-unknown-pragmas",
                                                  # the signed-overflow clause of C05: trap (SIGILL ->
                                                  # crash journal) on any signed int overflow
                                                  "-fsanitize=signed-integer-overflow",
                                                  "-fsanitize-undefined-trap-on-error"])
        tmp = tempfile.mkdtemp(prefix="tsim-kc-")
        try:
            try:
                lib_path = ffibuilder.compile(tmpdir=tmp)
            except Exception as e:
                raise Skip("compile_c:" + type(e).__name__)
            self.lib = ffibuilder.dlopen(lib_path)
            self._ffibuilder = ffibuilder
        finally:
            shutil.rmtree(tmp, ignore_errors=True)


def _new_struct(fmt_str, dims):
    from tensora.compile import allocate_taco_structure

    modes, ordering = parse_fmt(fmt_str)
    return allocate_taco_structure(tuple(1 if m == "s" else 0 for m in modes), tuple(dims),
                                   tuple(ordering))


def build_input(heap, fmt_str, dims, entries, owner, stubs=()):
    """An input tensor whose arrays live in the arena with exact lengths."""
    from tensora.compile import tensor_cdefs as ffi

    levels, vals = build_structure(dims, fmt_str, entries, stubs)
    c = _new_struct(fmt_str, dims)
    idx = ffi.cast("int32_t***", c.indices)
    for l, lv in enumerate(levels):
        if lv is not None:
            idx[l][0] = ffi.cast("int32_t*", heap.alloc_input(pack_i32(lv[0]), owner))
            idx[l][1] = ffi.cast("int32_t*", heap.alloc_input(pack_i32(lv[1]), owner))
    c.vals = ffi.cast("double*", heap.alloc_input(pack_f64(vals), owner))
    return c


def struct_fingerprint(c):
    return (dec.header(c), tuple(a for _, a in dec.pointers(c)))


class Scenario:
    def __init__(self, plan, ks: KernelSet, twin: int):
        self.plan = plan
        self.ks = ks
        self.twin = twin
        self.heap = SIM.heap
        self.violations = []
        self.obs = []  # address-free observations, compared between the twins
        self.call_seq = 0
        self.probes = {}
        self.reported = set()

    def viol(self, props, oracle, phase, *detail):
        self.violations.append({
            "properties": list(props), "oracle": oracle, "phase": phase,
            "twin": self.twin, "detail": json.loads(json.dumps(detail, default=repr)),
        })

    def probe(self, name, n=1):
        self.probes[name] = self.probes.get(name, 0) + n

    # ------------------------------------------------------------------
    def make_inputs(self, values=None):
        plan = self.plan
        ins = {}
        for n, t in plan["inputs"].items():
            entries = t["entries"]
            if values is not None:
                entries = [[e[0], v] for e, v in zip(entries, values[n])]
            ins[n] = build_input(self.heap, plan["problem"]["formats"][n], t["dims"], entries,
                                 owner=("input", n), stubs=t.get("stubs") or ())
        return ins

    def new_out(self):
        plan = self.plan
        dims = [plan["sizes"][x] for x in plan["target"]]
        return _new_struct(plan["problem"]["formats"][self.ks.out_name], dims)

    def out_expect(self):
        plan = self.plan
        modes, ordering = parse_fmt(plan["problem"]["formats"][self.ks.out_name])
        return {"dims": [plan["sizes"][x] for x in plan["target"]],
                "mode_types": [1 if m == "s" else 0 for m in modes], "ordering": ordering}

    def call(self, kind, out, ins, phase, allowed_write_ids=()):
        heap = self.heap
        self.call_seq += 1
        cid = f"{kind}#{self.call_seq}"
        before = heap.snapshot()
        in_fp = {n: struct_fingerprint(c) for n, c in ins.items()}
        out_fp = struct_fingerprint(out)
        t0 = len(heap.trace)
        args = [(out if n == self.ks.out_name else ins[n]) for n in self.ks.names]
        heap.current_call = cid
        _phase(f"kernel:{kind}:{phase}")
        ret = self.ks.fn[kind](*args)
        _phase("post")
        heap.current_call = "harness"
        trace = heap.trace[t0:]
        for e in heap.check():
            # a damaged red zone stays damaged: report it for the call that did it, once
            if e[0] in ("overflow", "underflow", "write_after_release"):
                if (e[0], e[1]) in self.reported:
                    continue
                self.reported.add((e[0], e[1]))
            self.viol(HEAP_PROPS.get(e[0], ("C05",)) + (("C04",) if kind == "compute" else ()),
                      e[0], phase, *e[1:])
        if ret != 0:
            self.viol(("C05",), "return_nonzero", phase, ret)
        for n, c in ins.items():
            if struct_fingerprint(c) != in_fp[n]:
                self.viol(("C05",), "input_struct_modified", phase, n)
        touched = {e[1] for e in trace if e[0] == "r" and isinstance(e[1], int)}
        touched |= {e[1] for e in trace if e[0] == "f" and isinstance(e[1], int)}
        for bid, data in before.items():
            b = heap.by_id[bid]
            if bid in touched:
                owner = b.owner
                if owner and owner[0] == "input":
                    self.viol(("C05",), "input_array_released_by_kernel", phase, owner[1])
                continue
            if b.state == "live" and heap.read(b) != data and bid not in allowed_write_ids:
                owner = b.owner
                if owner and owner[0] == "input":
                    self.viol(("C05",), "input_modified", phase, owner[1])
                else:
                    self.viol(("C05", "C04") if kind == "compute" else ("C05",),
                              "foreign_block_modified", phase, b.size, b.call)
        return cid, ret, trace, out_fp

    def decode_out(self, out, phase, structure_only=False):
        levels, vals, nnz, problems = dec.decode(out, self.heap, self.out_expect())
        for p in problems:
            self.viol(DECODE_PROPS.get(p[0], ("C02",)), p[0], phase, *p[1:])
        return levels, (None if structure_only else vals), nnz

    def kernel_leaks(self, cid, out, phase):
        held = {a for _, a in dec.pointers(out)}
        for b in self.heap.live_blocks():
            if b.call == cid and b.addr not in held:
                self.viol(("C13",), "kernel_leak", phase, b.size)
        for role, a in dec.pointers(out):
            b = self.heap.block_at(a)
            if b is not None and b.state == "live" and b.call != cid:
                # not a clause of C05 by itself (ownership is C13's business, engine S)
                self.probe("handed_back_array_not_allocated_by_this_call")

    # ------------------------------------------------------------------
    def run(self):
        heap = self.heap
        plan = self.plan
        hk = plan["heap"]
        g, z, poison = hk["twins"][self.twin]
        heap.reset()
        # guard runs: twin 0 fences the end of every array, twin 1 the start
        guard = ("end", "start")[self.twin] if hk.get("guard") else "none"
        heap.configure(garbage=g, redzone=z, rz=hk["rz"], realloc=hk["realloc"], zero=hk["zero"],
                       poison=poison, guard=guard)
        if guard != "none":
            self.probe("guard_page_twin_runs")
        ins = self.make_inputs()

        # ---- evaluate
        out_e = self.new_out()
        cid, ret, tr, _ = self.call("evaluate", out_e, ins, "evaluate")
        lv_e, vals_e, nnz_e = self.decode_out(out_e, "evaluate")
        self.kernel_leaks(cid, out_e, "evaluate")
        self.obs.append(("evaluate", ret, lv_e, None if vals_e is None else vals_e.hex(), tr))
        if heap.stats["realloc_grow"]:
            self.probe("evaluate_grew_an_array")
        if lv_e is not None and any(l is not None and l[1] for l in lv_e):
            self.probe("evaluate_stored_sparse_coordinates")

        # ---- assemble ; compute
        out_a = self.new_out()
        cid_a, ret, tr, _ = self.call("assemble", out_a, ins, "assemble")
        lv_a, _, nnz_a = self.decode_out(out_a, "assemble", structure_only=True)
        self.kernel_leaks(cid_a, out_a, "assemble")
        self.obs.append(("assemble", ret, lv_a, tr))
        if lv_a != lv_e and lv_a is not None and lv_e is not None:
            self.viol(("C04",), "assemble_structure_differs_from_evaluate", "assemble",
                      _brief(lv_a), _brief(lv_e))
        vals_addr = dec.addr_of(out_a.vals)
        vb = heap.block_at(vals_addr)
        allowed = (vb.id,) if vb is not None else ()
        values_list = [None] + list(plan["revalues"])
        for step, values in enumerate(values_list):
            phase = f"compute{step}"
            ins_s = ins if values is None else self.make_inputs(values)
            before_ptrs = struct_fingerprint(out_a)
            cid_c, ret, tr, _ = self.call("compute", out_a, ins_s, phase, allowed)
            # the statement forbids changing or reallocating the structure; a compute kernel that
            # allocated and released a private workspace would be legal, so only calls that touch
            # blocks which existed before the call are violations
            pre = {e[1] for e in tr if e[0] in ("r", "f") and isinstance(e[1], int)
                   and self.heap.by_id[e[1]].call != cid_c}
            if pre:
                self.viol(("C04",), "compute_reallocated_or_freed_structure", phase, tr[:4])
            elif not tr:
                self.probe("compute_made_no_heap_call")
            if struct_fingerprint(out_a) != before_ptrs:
                self.viol(("C04",), "compute_changed_structure_pointers", phase)
            lv_c, vals_c, nnz_c = self.decode_out(out_a, phase)
            if lv_c != lv_a:
                self.viol(("C04",), "compute_changed_structure", phase, _brief(lv_c), _brief(lv_a))
            if values is None:
                ref_lv, ref_vals = lv_e, vals_e
            else:
                out_r = self.new_out()
                cid_r, ret_r, tr_r, _ = self.call("evaluate", out_r, ins_s, f"evaluate{step}")
                ref_lv, ref_vals, _ = self.decode_out(out_r, f"evaluate{step}")
                self.obs.append((f"evaluate{step}", ret_r, ref_lv,
                                 None if ref_vals is None else ref_vals.hex(), tr_r))
                self.probe("recompute_with_new_values")
            self.obs.append((phase, ret, lv_c, None if vals_c is None else vals_c.hex(), tr))
            if None not in (lv_c, vals_c, ref_lv, ref_vals):
                if lv_c != ref_lv:
                    self.viol(("C04",), "assemble_compute_structure_differs", phase,
                              _brief(lv_c), _brief(ref_lv))
                elif not _vals_equal(vals_c, ref_vals):
                    self.viol(("C04",), "assemble_compute_values_differ", phase,
                              _floats(vals_c)[:8], _floats(ref_vals)[:8])
        # everything of this run is released by the harness (K never hands arrays to ffi.gc)
        for b in heap.live_blocks():
            heap.free_addr(b.addr)
        heap.errors = []
        return self


def _brief(levels):
    if levels is None:
        return None
    return [None if l is None else [l[0][:10], l[1][:10]] for l in levels]


def _floats(b):
    import struct

    return list(struct.unpack(f"<{len(b) // 8}d", b))


def _vals_equal(a: bytes, b: bytes) -> bool:
    """Bit-identical, except that +0.0 and -0.0 are the same number."""
    if a == b:
        return True
    if len(a) != len(b):
        return False
    return all(x == y for x, y in zip(_floats(a), _floats(b)))


def run_plan(plan, cfg=None):
    """-> result dict.  With plan["capacity_sweep"] the same problem and inputs are run under
    EVERY initial capacity 1..8 (fault enumeration over the capacity knob for that case)."""
    if plan.get("capacity_sweep") and not plan.get("backend_c"):
        import copy

        first = None
        for cap in plan["capacity_sweep"]:
            rearm_watchdog()
            p = copy.deepcopy(plan)
            p["capacity"] = cap
            p["capacity_sweep"] = None
            r = _run_plan(p)
            if first is None:
                first = r
            else:
                for k, v in r.get("stats", {}).items():
                    first["stats"][k] = first["stats"].get(k, 0) + v
            if r["verdict"] == "violation":
                plan.clear()
                plan.update(p)  # the failing capacity becomes the plan of record
                r["probes"] = dict(r.get("probes", {}), capacity_sweeps=1)
                return r
            if r["verdict"] == "skipped":
                return r
        first["probes"] = dict(first.get("probes", {}), capacity_sweeps=1,
                               capacities_enumerated=len(plan["capacity_sweep"]))
        return first
    return _run_plan(plan)


def _pregenerate(pre):
    """Generate (and drop) kernels of a related problem: history for the generator."""
    import signal

    from returns.result import Success
    from tensora.expression import parse_assignment
    from tensora.format import parse_format
    from tensora.generate import generate_module_tensora
    from tensora.kernel_type import KernelType
    from tensora.problem import make_problem

    def _alarm(signum, frame):
        raise GenerationTimeout()

    old = signal.signal(signal.SIGALRM, _alarm)
    signal.setitimer(signal.ITIMER_REAL, 4.0)
    try:
        pa = parse_assignment(pre["assignment"])
        fm = {k: parse_format(v) for k, v in pre["formats"].items()}
        if isinstance(pa, Success) and all(isinstance(f, Success) for f in fm.values()):
            pr = make_problem(pa.unwrap(), {k: f.unwrap() for k, f in fm.items()})
            if isinstance(pr, Success):
                generate_module_tensora(pr.unwrap(), [KernelType[k] for k in pre["kinds"]])
                return True
    except (Exception, GenerationTimeout):
        pass
    finally:
        signal.setitimer(signal.ITIMER_REAL, 0)
        signal.signal(signal.SIGALRM, old)
    return False


def _run_on_small_stack(sc):
    import threading

    err = []

    def body():
        try:
            sc.run()
        except BaseException as e:  # re-raised in the caller: a harness problem, not an observation
            err.append(e)

    old = threading.stack_size(256 * 1024)
    try:
        th = threading.Thread(target=body, name="small-stack")
        th.start()
    finally:
        threading.stack_size(old)
    th.join()
    if err:
        raise err[0]


def _run_plan(plan, cfg=None):
    """-> result dict: verdict ok|skipped|violation, violations, stats, digest, probes."""
    heap = SIM.heap
    res = {"verdict": "ok", "violations": [], "stats": {}, "probes": {}, "skip": None}
    _phase("generate")
    npre = sum(1 for pre in plan.get("pre_generate") or [] if _pregenerate(pre))
    try:
        ks = KernelSet(plan["problem"]["assignment"], plan["problem"]["formats"], plan["capacity"],
                       bool(plan.get("backend_c")), plan.get("separate_modules"))
    except Skip as s:
        if str(s) == "kinds_inconsistent":
            res["verdict"] = "violation"
            res["violations"].append({
                "properties": ["C04"], "oracle": "kinds_inconsistent_generation",
                "phase": "generate", "twin": 0, "detail": []})
            res["digest"] = "-"
            return res
        res["verdict"] = "skipped"
        res["skip"] = str(s)
        res["digest"] = "skip:" + str(s)
        return res
    res["capacity_knob"] = ks.capacity_knob
    if plan.get("backend_c"):
        res["probes"] = {"kernels_compiled_from_c_text": 1}
    elif plan.get("separate_modules"):
        res["probes"] = {"kinds_generated_in_separate_modules": 1}
    if npre:
        res["probes"] = dict(res.get("probes") or {}, related_problems_generated_just_before=npre)
    twins = []
    stats = {}
    for t in (0, 1):
        sc = Scenario(plan, ks, t)
        if plan.get("small_stack"):
            _run_on_small_stack(sc)
            res["probes"] = dict(res.get("probes") or {}, histories_on_a_256KiB_stack=1)
        else:
            sc.run()
        twins.append(sc)
        for k, v in heap.stats.items():
            stats[k] = stats.get(k, 0) + v
    res["stats"] = stats
    a, b = twins
    vio = a.violations + b.violations
    if a.obs != b.obs:
        # first differing observation
        for oa, ob in zip(a.obs, b.obs):
            if oa != ob:
                what = "trace" if oa[:-1] == ob[:-1] else "result"
                props = ["C05"] + (["C04"] if oa[0].startswith(("compute", "assemble")) else [])
                vio.append({"properties": props, "oracle": "garbage_twins_diverge",
                            "phase": oa[0], "twin": -1, "detail": [what]})
                break
    # de-duplicate between the twins
    seen = set()
    out = []
    for v in vio:
        key = (tuple(v["properties"]), v["oracle"], v["phase"])
        if key not in seen:
            seen.add(key)
            out.append(v)
    res["violations"] = out
    if out:
        res["verdict"] = "violation"
    res["probes"] = dict(a.probes, **res.get("probes", {}))
    levels = a.obs[0][2] if a.obs else None
    res["nontrivial"] = bool(
        any(ch in "s" for f in plan["problem"]["formats"].values() for ch in f)
        and any(t["entries"] for t in plan["inputs"].values()))
    res["digest"] = hashlib.blake2b(
        json.dumps(a.obs, default=repr, sort_keys=True).encode(), digest_size=8).hexdigest()
    res["shape"] = shape_key(plan)
    return res


def shape_key(plan):
    import re

    a = plan["problem"]["assignment"]
    a = re.sub(r"\d+(\.\d+)?(e\d+)?", "N", a)
    return a + " | " + ",".join(f"{k}:{v}" for k, v in sorted(plan["problem"]["formats"].items()))


# ====================================================================== engine interface
NAME = "K"
WATCHDOG_S = 45
RULE = (
    "Each evaluation is one engine-K run: one problem (20% from a fixed catalogue of the "
    "expressions in tests/, README and properties.jsonl, 80% from a seeded grammar: 1-4 input "
    "tensors of order 0-4, <=4 index names, depth <=3 over + - *, literals, repeated tensors, "
    "every level d/s, permuted mode orderings), inputs built in the simulated arena with exact "
    "array lengths, sizes per index in {0,1,2,3,4,7}, run as the history evaluate; assemble; "
    "compute; (re-value; compute; evaluate)* twice (garbage twins) under seeded heap knobs "
    "(realloc policy, zero-size policy, red-zone width, garbage/red-zone/poison bytes) and a "
    "seeded initial capacity in {1,2,3,5,8,2^20}; 30% of the runs place every block against guard "
    "pages (twin 0: ends fenced, twin 1: starts fenced, released blocks inaccessible); ~8% are "
    "hypersparse runs (compressed-only indexes of size 46341..2^20 with <=5 stored entries); 12% "
    "generate each kernel kind in its own module; 12% generate related problems (storage twins, "
    "subsets of kinds) in the same process first; ~2% run on a 256 KiB thread stack over vectors "
    "with 3000-9000 stored entries; 4-10% compile the C text with gcc (signed-overflow "
    "traps). distinct_nontrivial counts distinct "
    "(assignment with literals abstracted, formats) pairs that have at least one compressed "
    "level and at least one stored input entry and for which kernels were generated and run."
)
_kernel_cache = {}


def boot(cfg=None):
    from ..boot import boot as _boot

    _boot()
    # warm-up: one kernel so that lazy imports are done before the first measured run (on a heavily
    # loaded machine even this generation can exceed its budget: not a reason to fail the batch)
    try:
        KernelSet("A(i) = B(i)", {"A": "s", "B": "s"}, 1 << 20)
    except Skip:
        pass


def gen_plan(seed, cfg):
    from ..workload import CATALOGUE, gen_k_plan

    tier = (cfg or {}).get("tier", "quick")
    plan = gen_k_plan(seed, seed % 8, CATALOGUE, p_backend_c=0.04 if tier == "quick" else 0.1)
    if tier == "thorough" and not plan["backend_c"] and seed % 10 == 3:
        plan["capacity_sweep"] = [1, 2, 3, 4, 5, 6, 7, 8]
    return plan


def run(plan, cfg=None):
    return run_plan(plan)


def fingerprint(plan, violation):
    return f"{violation['oracle']} @ {shape_key(plan)}"


def sample(plan, res):
    return {
        "assignment": plan["problem"]["assignment"], "formats": plan["problem"]["formats"],
        "capacity": plan["capacity"], "heap": {k: plan["heap"][k] for k in ("realloc", "zero", "rz")},
        "sizes": plan["sizes"],
        "stored_entries": {n: len(t["entries"]) for n, t in plan["inputs"].items()},
        "recomputes": len(plan["revalues"]), "verdict": res["verdict"], "digest": res.get("digest"),
        "back_end": "c" if plan.get("backend_c") else "llvm",
    }


def _rebuild(plan, expr):
    """New plan with another expression tree (drops tensors that are no longer used)."""
    import copy

    from ..workload import expr_refs, expr_to_str

    p = copy.deepcopy(plan)
    refs = expr_refs(expr)
    used = []
    for _, n, ix in refs:
        if n not in used:
            used.append(n)
    # every remaining reference of a tensor must keep the arity of its data
    for _, n, ix in refs:
        if len(ix) != len(plan["inputs"][n]["dims"]):
            return None
    p["expr"] = expr
    tname = plan["problem"]["assignment"].split("(")[0].strip()
    p["problem"]["assignment"] = f"{tname}({','.join(plan['target'])}) = {expr_to_str(expr)}"
    p["problem"]["formats"] = {k: v for k, v in plan["problem"]["formats"].items()
                               if k == tname or k in used}
    p["inputs"] = {n: plan["inputs"][n] for n in used}
    first = {}
    for _, n, ix in refs:
        first.setdefault(n, list(ix))
    p["input_indexes"] = first
    p["revalues"] = [{n: rv[n] for n in used} for rv in plan["revalues"]]
    return p


def _subexprs(e, path=()):
    yield path, e
    if e[0] not in ("t", "lit"):
        yield from _subexprs(e[1], path + (1,))
        yield from _subexprs(e[2], path + (2,))


def _replace(e, path, new):
    if not path:
        return new
    e = list(e)
    e[path[0]] = _replace(e[path[0]], path[1:], new)
    return e


def shrink_candidates(plan):
    """Yield simpler plans, most aggressive first (never one that breaks the precondition under
    which the plan's huge dimensions were chosen)."""
    from ..workload import hypersparse_ok

    for cand in _shrink_candidates(plan):
        if hypersparse_ok(cand):
            yield cand


def _shrink_candidates(plan):
    import copy

    if plan.get("capacity_sweep"):
        return

    def cp():
        return copy.deepcopy(plan)

    if plan.get("separate_modules"):
        p = cp(); p["separate_modules"] = None; yield p
    if plan.get("small_stack"):
        p = cp(); p["small_stack"] = False; yield p
    if plan.get("pre_generate"):
        p = cp(); p["pre_generate"] = []; yield p
        if len(plan["pre_generate"]) > 1:
            for k in range(len(plan["pre_generate"])):
                p = cp(); del p["pre_generate"][k]; yield p
    if plan["revalues"]:
        p = cp(); p["revalues"] = []; yield p
        if len(plan["revalues"]) > 1:
            for k in range(len(plan["revalues"])):
                p = cp(); del p["revalues"][k]; yield p
    # expression
    e = plan.get("expr")
    if e is not None:
        for path, sub in _subexprs(e):
            if sub[0] in ("t", "lit"):
                continue
            for child in (sub[1], sub[2]):
                ne = _replace(e, path, child)
                if any(True for _ in (r for r in _subexprs(ne) if r[1][0] == "t")):
                    p = _rebuild(plan, ne)
                    if p is not None:
                        yield p
    # inputs
    for n, t in plan["inputs"].items():
        if t.get("stubs"):
            p = cp(); p["inputs"][n]["stubs"] = []; yield p
    for n, t in plan["inputs"].items():
        ne = len(t["entries"])
        if ne:
            for keep in ([], t["entries"][: ne // 2], t["entries"][ne // 2:]):
                if len(keep) < ne:
                    p = cp(); p["inputs"][n]["entries"] = keep
                    idxs = [i for i, en in enumerate(t["entries"]) if en in keep]
                    p["revalues"] = [dict(rv, **{n: [rv[n][i] for i in idxs]}) for rv in plan["revalues"]]
                    yield p
            if ne <= 8:
                for k in range(ne):
                    p = cp(); del p["inputs"][n]["entries"][k]
                    for rv in p["revalues"]:
                        del rv[n][k]
                    yield p
    # sizes (keep stored coordinates in range; indexes of one equality class shrink together)
    members = {}
    for x, c in plan["classes"].items():
        if x in plan["sizes"]:
            members.setdefault(c, []).append(x)
    uses = {}
    for n, ix in plan["input_indexes"].items():
        for pos_, x in enumerate(ix):
            uses.setdefault(x, []).append((n, pos_))
    for c, xs in sorted(members.items()):
        size = plan["sizes"][xs[0]]
        need = 0
        for x in xs:
            for n, pos_ in uses.get(x, []):
                for en in plan["inputs"][n]["entries"]:
                    need = max(need, en[0][pos_] + 1)
        for smaller in (1, 2, 3):
            if need <= smaller < size:
                p = cp()
                for x in xs:
                    p["sizes"][x] = smaller
                for n, ix in plan["input_indexes"].items():
                    p["inputs"][n]["dims"] = [p["sizes"][y] for y in ix]
                yield p
                break
        if size == 0:
            continue
    # knobs toward benign
    if plan["capacity"] != 1 << 20:
        p = cp(); p["capacity"] = 1 << 20; yield p
    if plan["heap"].get("guard"):
        p = cp(); p["heap"]["guard"] = False; yield p
    elif plan["heap"]["realloc"] != "size_class":
        p = cp(); p["heap"]["realloc"] = "size_class"; yield p
    if plan["heap"]["zero"] != "unique":
        p = cp(); p["heap"]["zero"] = "unique"; yield p
    if plan["heap"]["rz"] != 64:
        p = cp(); p["heap"]["rz"] = 64; yield p
    # formats
    for n, f in plan["problem"]["formats"].items():
        modes, ordering = parse_fmt(f)
        if list(ordering) != sorted(ordering):
            p = cp(); p["problem"]["formats"][n] = "".join(modes); yield p
        for l, m in enumerate(modes):
            if m == "s":
                nm = list(modes); nm[l] = "d"
                p = cp()
                p["problem"]["formats"][n] = (
                    "".join(nm) if list(ordering) == sorted(ordering)
                    else "".join(a + str(b) for a, b in zip(nm, ordering)))
                yield p
    # values -> 1.0
    for n, t in plan["inputs"].items():
        if any(en[1] != 1.0 for en in t["entries"]):
            p = cp()
            for en in p["inputs"][n]["entries"]:
                en[1] = 1.0
            yield p
