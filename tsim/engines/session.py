"""Engine S: histories of Python API operations on the simulated heap with GC faults.

System under simulation: the real Tensor / TensorMethod / global_weakkeydict / cffi ffi.gc /
CPython reference counting.  Simulated: the heap (sees every malloc/realloc of a kernel and every
free() of an arena address) and the collector (disabled; gc.collect() injected at seeded trace
lines inside operations and as an explicit operation).

Reference model: names -> logical tensors -> the blocks their C struct points to.  Logical
tensors carry a model-side id; they are never looked up by address (cffi recycles addresses).
"""

from __future__ import annotations

import gc
import hashlib
import json
import os
import pickle
import random
import sys
import threading

from .. import decode as dec
from ..boot import SIM, clear_kernel_cache, rearm_watchdog, set_capacity

NAME = "S"
WATCHDOG_S = 60
CAP_BY_BUCKET = [1, 2, 3, 5, 1, 8, 2, 1 << 20]
NAMES = ["n0", "n1", "n2", "n3", "n4", "n5"]

V3, M33, T222, SC = (3,), (3, 3), (2, 2, 2), ()
# (assignment, output format, [(param, dims, format)], output dims, backend)
KERNELS = [
    ("o(i) = a(i)", "s", [("a", V3, "s")], V3, "llvm"),
    ("o(i) = a(i)", "s", [("a", V3, "d")], V3, "llvm"),
    ("o(i) = a(i)", "d", [("a", V3, "s")], V3, "llvm"),
    ("o(i) = a(i) + b(i)", "s", [("a", V3, "s"), ("b", V3, "s")], V3, "llvm"),
    ("o(i) = a(i) * b(i)", "s", [("a", V3, "s"), ("b", V3, "d")], V3, "llvm"),
    ("o(i) = 2 * a(i)", "s", [("a", V3, "s")], V3, "llvm"),
    ("o(i) = a(i) * a(i)", "s", [("a", V3, "s")], V3, "cffi"),
    ("o() = a(i) * b(i)", "", [("a", V3, "s"), ("b", V3, "s")], SC, "llvm"),
    ("o(i) = c() * a(i)", "s", [("c", SC, ""), ("a", V3, "s")], V3, "llvm"),
    ("o(i,j) = a(i,j) + b(i,j)", "ds", [("a", M33, "ds"), ("b", M33, "ds")], M33, "llvm"),
    ("o(i,j) = a(i,j) + b(i,j)", "ds", [("a", M33, "ds"), ("b", M33, "ds")], M33, "cffi"),
    ("o(i,j) = a(i,j) * b(i,j)", "ss", [("a", M33, "ds"), ("b", M33, "ss")], M33, "llvm"),
    ("o(i,j) = a(i,j) - b(i,j)", "dd", [("a", M33, "ds"), ("b", M33, "dd")], M33, "llvm"),
    ("o(i,j) = a(i,k) * b(k,j)", "dd", [("a", M33, "ds"), ("b", M33, "ds")], M33, "llvm"),
    ("o(i,j) = a(i,k) * b(k,j)", "ss", [("a", M33, "ds"), ("b", M33, "d1s0")], M33, "llvm"),
    ("o(i,j) = a(i,k) * b(k,j)", "ss", [("a", M33, "ds"), ("b", M33, "d1s0")], M33, "cffi"),
    ("o(i,j) = a(i,k) * b(k,j)", "dd", [("a", M33, "dd"), ("b", M33, "dd")], M33, "llvm"),
    ("o() = a(i,j) * b(i,j)", "", [("a", M33, "ds"), ("b", M33, "ds")], SC, "llvm"),
    ("o(i) = a(i,j) * x(j)", "s", [("a", M33, "ds"), ("x", V3, "d")], V3, "llvm"),
    ("o(i) = a(i,j) * x(j)", "d", [("a", M33, "ds"), ("x", V3, "s")], V3, "llvm"),
    ("o(i) = a(i,j) * x(j)", "s", [("a", M33, "ss"), ("x", V3, "s")], V3, "cffi"),
    ("o(j,i) = a(i,j)", "d1s0", [("a", M33, "ds")], M33, "llvm"),
    ("o(j,i) = a(i,j)", "ds", [("a", M33, "d1s0")], M33, "llvm"),
    ("o(i,j) = a(i,j)", "ss", [("a", M33, "dd")], M33, "llvm"),
    ("o(i,j) = a(i,j)", "sd", [("a", M33, "ss")], M33, "llvm"),
    ("o(i,j) = a(i,j)", "ds", [("a", M33, "sd")], M33, "llvm"),
    ("o(i,j) = a(i) * b(j)", "ds", [("a", V3, "s"), ("b", V3, "s")], M33, "llvm"),
    ("o(i,j,k) = a(i,j,k)", "sss", [("a", T222, "sss")], T222, "llvm"),
    ("o(i,j,k) = a(i,j,k)", "sss", [("a", T222, "dss")], T222, "cffi"),
    ("o(i,j,k) = a(i,j,k) + b(i,j,k)", "dss", [("a", T222, "sss"), ("b", T222, "dss")], T222, "llvm"),
    ("o(i,j) = a(i,j,k) * x(k)", "ss", [("a", T222, "sss"), ("x", (2,), "s")], (2, 2), "llvm"),
    ("o(i,j) = a(i,j,k) * x(k)", "ds", [("a", T222, "dss"), ("x", (2,), "d")], (2, 2), "llvm"),
]


def _vd(dims, v):
    """Dimension variant v of a catalogue shape: every size grows by v (equal sizes stay equal, so
    every kernel stays consistent).  Two calls of one cached method then differ in all dimensions."""
    return tuple(d + v for d in dims)


FRESH_TYPES = sorted({(d, f) for k in KERNELS for _, d, f in k[2]}, key=repr)
OPERATORS = ["add", "sub", "mul", "scale", "rscale", "matmul"]
TO_FORMATS = {1: ["s", "d"], 2: ["ds", "ss", "dd", "sd", "d1s0", "s1s0"], 3: ["sss", "dss", "ddd"],
              0: [""]}

RULE = (
    "Each evaluation is one history of 3-12 (quick) / 3-30 (thorough) operations over <=6 names "
    "drawn from {evaluate one of 32 catalogue kernels (llvm and cffi back ends, output formats "
    "'', d, s, ds, ss, dd, sd, d1s0, sss, dss) with sources taken from earlier outputs or fresh "
    "tensors; operators + - * @ and scalar scaling; alias a name; alias the C struct (struct "
    "outliving its Tensor); raw read; pickle round trip; to_format; ==; refused evaluate "
    "(inconsistent argument); del; gc; cache_clear (the compiled method is dropped while its "
    "results live on); items() iterators opened and advanced across operations; shape floods; "
    "evaluation through a Problem with the target listed last}, under a seeded heap (garbage, red zones, realloc/zero "
    "policy), a per-worker initial capacity, and gc.collect() injected at seeded trace lines "
    "inside operations; every evaluate uses one of two dimension sets; 10% of the quick histories "
    "(30% when serving C02, 35% thorough) are dealt out to two simulated threads over a palette of "
    "1-3 kernels; every history ends with del of all names + gc. distinct_nontrivial "
    "counts distinct operation-kind sequences that contain at least one kernel output that is "
    "later deleted."
)

# --------------------------------------------------------------------------- plan generation


def _gen_entries(rng, dims):
    import itertools

    total = 1
    for d in dims:
        total *= d
    allc = list(itertools.product(*[range(d) for d in dims]))
    k = rng.choice([0, 1, 2, max(1, total // 2), total])
    return [[list(c), rng.choice([1.0, -2.0, 0.0, 0.5, 3.0])] for c in rng.sample(allc, min(k, total))]


def gen_plan(seed, cfg):
    rng = random.Random(seed)
    tier = (cfg or {}).get("tier", "quick")
    bucket = seed % 8
    nops = rng.randint(3, 12) if tier == "quick" or rng.random() < 0.5 else rng.randint(8, 30)
    cold = seed % 16 == 15
    llvm_kernels = [i for i, k in enumerate(KERNELS) if k[4] == "llvm"]
    # histories dealt out to two simulated threads (decided first: they use a small palette of kernels
    # and both dimension sets, so that the two threads meet inside the same cached method with
    # arguments of different dimensions)
    # (C02's share of engine S is about outputs of interleaved calls and chains; C13's about lifetimes)
    threaded = rng.random() < (0.35 if tier == "thorough" else 0.3 if (cfg or {}).get("prop") == "C02" else 0.1)
    palette = rng.sample(range(len(KERNELS)), rng.choice([1, 2, 3])) if threaded and rng.random() < 0.7 else None
    # generator-side model: name -> (kind, dims, fmt, from_kernel)
    names = {}
    ops = []
    weights = rng.choice([
        {"eval": 5, "op": 2, "alias": 2, "alias_struct": 2, "read": 1, "pickle": 1, "to_format": 1,
         "eq": 1, "refused": 1, "del": 3, "gc": 1},
        {"eval": 6, "op": 1, "alias": 1, "alias_struct": 3, "read": 1, "pickle": 2, "to_format": 0,
         "eq": 0, "refused": 0, "del": 5, "gc": 2},
        {"eval": 3, "op": 4, "alias": 3, "alias_struct": 1, "read": 2, "pickle": 1, "to_format": 2,
         "eq": 2, "refused": 2, "del": 2, "gc": 1},
    ])
    kinds = [k for k, w in weights.items() for _ in range(w)]

    def tensors():
        return [n for n, t in names.items() if t[0] == "tensor"]

    def pick_source(dims, fmt):
        cands = [n for n in tensors() if names[n][1] == dims and names[n][2] == fmt]
        if cands and rng.random() < 0.7:
            return {"name": rng.choice(cands)}
        return {"fresh": {"dims": list(dims), "fmt": fmt, "entries": _gen_entries(rng, dims)}}

    for _ in range(nops):
        kind = rng.choice(kinds)
        dst = rng.choice(NAMES)
        if kind == "eval":
            ki = rng.randrange(len(KERNELS))
            if palette is not None:
                ki = palette[ki % len(palette)]
            if cold:
                ki = llvm_kernels[ki % len(llvm_kernels)]
            a, of, params, od, be = KERNELS[ki]
            v = 1 if rng.random() < (0.5 if palette is not None else 0.3) else 0
            ops.append({"op": "eval", "dst": dst, "kernel": ki, "variant": v,
                        "private": be != "cffi" and not cold and rng.random() < 0.1,
                        "srcs": {p: pick_source(_vd(d, v), f) for p, d, f in params}})
            names[dst] = ("tensor", _vd(od, v), of, True)
        elif kind == "op" and tensors():
            a = rng.choice(tensors())
            opn = rng.choice(OPERATORS)
            if opn in ("scale", "rscale"):
                ops.append({"op": "op", "dst": dst, "operator": opn, "a": a,
                            "k": rng.choice([2.0, -1.0, 0.5, 0.0])})
                names[dst] = ("tensor", names[a][1], names[a][2], True)
            else:
                same = [n for n in tensors() if names[n][1] == names[a][1]]
                b = rng.choice(same)
                ops.append({"op": "op", "dst": dst, "operator": opn, "a": a, "b": b})
                # result type is decided by tensora; the executor records what it got
                names[dst] = ("tensor", None, None, True)
        elif kind == "alias" and names:
            src = rng.choice(sorted(names))
            ops.append({"op": "alias", "dst": dst, "src": src})
            names[dst] = names[src]
        elif kind == "alias_struct" and tensors():
            src = rng.choice(tensors())
            ops.append({"op": "alias_struct", "dst": dst, "src": src})
            names[dst] = ("struct",) + names[src][1:]
        elif kind == "read" and names:
            r_it = rng.random()
            if r_it < 0.2 and tensors():
                # a read in flight: an items() iterator opened now and advanced by later operations
                ops.append({"op": "iter_open", "slot": rng.randrange(2), "src": rng.choice(tensors()),
                            "take": rng.choice([0, 1, 2])})
            elif r_it < 0.45:
                ops.append({"op": "iter_next", "slot": rng.randrange(2), "take": rng.choice([1, 2, 100])})
            else:
                ops.append({"op": "read", "src": rng.choice(sorted(names))})
        elif kind == "pickle" and tensors():
            src = rng.choice(tensors())
            ops.append({"op": "pickle", "dst": dst, "src": src})
            names[dst] = ("tensor", names[src][1], names[src][2], False)
        elif kind == "to_format" and tensors():
            src = rng.choice(tensors())
            ops.append({"op": "to_format", "dst": dst, "src": src, "pick": rng.randrange(1 << 16)})
            names[dst] = ("tensor", names[src][1], None, False)
        elif kind == "eq" and tensors():
            ops.append({"op": "eq", "a": rng.choice(tensors()), "b": rng.choice(tensors())})
        elif kind == "refused" and tensors():
            ki = rng.randrange(len(KERNELS))
            if cold:
                ki = llvm_kernels[ki % len(llvm_kernels)]
            ops.append({"op": "refused", "kernel": ki, "how": rng.choice(["dim", "order", "format", "type", "missing"]),
                        "src": rng.choice(tensors())})
        elif kind == "del" and names:
            n = rng.choice(sorted(names))
            ops.append({"op": "del", "name": n})
            del names[n]
        elif kind == "gc":
            ops.append({"op": "gc"})
    # the compiled method leaves the kernel cache while its results are still alive.  Clearing the
    # cache makes every later history of the worker recompile what it uses, so these histories are
    # concentrated on the seeds of one worker (seed mod 16 = 15) and use LLVM kernels only.
    if cold and rng.random() < 0.4 and any(o["op"] == "eval" for o in ops):
        first_eval = min(i for i, o in enumerate(ops) if o["op"] == "eval")
        ops.insert(rng.randint(first_eval + 1, len(ops)), {"op": "cache_clear"})
    # a flood of short-lived tensors of 140 distinct shapes while results are alive: whatever bounded
    # table the ownership layer keeps per shape / format must not drop something that is still in use
    if rng.random() < 0.04 and len(ops) >= 2:
        ops.insert(rng.randint(1, len(ops)), {"op": "shape_flood", "n": 140, "base": rng.randint(1, 50)})
    # GC faults inside operations: (operation index, k-th counted trace line)
    p_gc = rng.choice([0.0, 0.2, 0.5, 1.0])
    faults = []
    for i, o in enumerate(ops):
        if o["op"] in ("eval", "op", "pickle", "to_format", "refused", "read", "eq") and rng.random() < p_gc:
            for _ in range(rng.choice([1, 1, 2, 3])):
                faults.append([i, rng.randrange(0, 400)])
    from ..workload import gen_heap_knobs

    hk = gen_heap_knobs(rng)
    hk["twin"] = 0
    plan = {"engine": "S", "run_seed": seed, "hashseed": bucket, "capacity": CAP_BY_BUCKET[bucket],
            "heap": hk, "ops": ops, "gc_faults": sorted(faults)}
    if len(ops) <= 4 and tier == "thorough" and rng.random() < 0.1:
        plan["gc_sweep"] = True
    threaded = threaded and not plan.get("gc_sweep")
    sp = {"strategy": "coin", "p_hot": rng.choice([0.02, 0.05, 0.1, 0.3]),
          "p_cold": rng.choice([0.0, 0.001]), "p_gc": rng.choice([0.0, 0.005, 0.02]),
          "lock_points": False}
    if not threaded and not plan.get("gc_sweep") and not cold and \
            rng.random() < (0.0006 if tier == "thorough" else 0.003):
        ki, kj, pn = rng.choice(_seq_pairs())
        ent = {f"p:{p}": _gen_entries(rng, d) for p, d, f in KERNELS[ki][2]}
        ent.update({f"c:{p}": _gen_entries(rng, d) for p, d, f in KERNELS[kj][2]})
        # quick: one seeded first operation + EVERY continuation of length 2 (121 histories);
        # thorough: every history of length 3 (1 331), or one first operation + every continuation
        # of length 3 (1 331 histories of length 4)
        if tier == "quick":
            ln, prefix = 3, [rng.choice(SEQ_ALPHABET)]
        elif rng.random() < 0.5:
            ln, prefix = 3, []
        else:
            ln, prefix = 4, [rng.choice(SEQ_ALPHABET)]
        plan["seq_sweep"] = {"producer": ki, "consumer": kj, "param": pn, "entries": ent,
                             "len": ln, "prefix": prefix}
        plan["ops"] = []
        plan["gc_faults"] = []
    thread_of = [rng.randrange(2) for _ in ops]
    if threaded and len(ops) >= 2:
        # the same history dealt out to two simulated threads: a del in one thread races an
        # evaluate that uses the tensor as input in the other
        plan.update({"threads": 2, "thread_of": thread_of, "sched": sp, "decisions": None,
                     "gc_faults": []})
    return plan


# --------------------------------------------------------------------------------- execution
_state = {"capacity": None, "counted": None}


def boot(cfg=None):
    from ..boot import boot as _boot

    _boot(sim_locks=True)
    from . import threads as T

    T.init_trace_state()
    import tensora  # noqa: F401
    from tensora import Tensor, evaluate  # noqa: F401

    # warm-up (lazy imports, one compile per back end)
    bucket = (cfg or {}).get("hashseed", 0)
    _ensure_capacity(CAP_BY_BUCKET[bucket % 8])
    _warm()


def _ensure_capacity(c):
    if _state["capacity"] != c:
        from tensora.compile import _porcelain

        set_capacity(c)
        clear_kernel_cache()
        _state["capacity"] = c
        _state["warm"] = False


def _warm():
    """Compile the whole catalogue so that a run sees the same warm cache in a batch and alone."""
    if _state.get("warm"):
        return
    from tensora import Tensor

    gc.collect()
    for a, of, params, od, be in KERNELS:
        kw = {p: Tensor.from_aos([], [], dimensions=d, format=f) for p, d, f in params}
        _evaluate(a, of, be, kw)
        if be != "cffi":
            _evaluate(a, of, be, kw, private=True)
    gc.collect()
    SIM.heap.drain()
    _state["warm"] = True


def _evaluate(a, of, be, kw, private=False):
    from tensora.compile import evaluate_cffi, evaluate_tensora

    if private and be != "cffi":
        m = _private_method(a, of, kw)
        if m is not None:
            return m(**kw)
    return (evaluate_cffi if be == "cffi" else evaluate_tensora)(a, of, **kw)


def _private_method(a, of, kw):
    """The compiled method of the same problem with its formats listed in ANOTHER order (inputs
    first, target last), built through the Problem / TensorMethod layer: a legitimate, distinct
    Problem (its equality includes the format order).  None if that layer is not there any more."""
    try:
        from tensora.compile import BackendCompiler
        from tensora.compile._porcelain import cachable_tensor_method
        from tensora.expression import parse_assignment
        from tensora.format import parse_format
        from tensora.problem import Problem
    except Exception:
        return None
    pa = parse_assignment(a).unwrap()
    tname = pa.target.name
    fm = {}
    for n, t in kw.items():
        fm[n] = t.format
    fm[tname] = parse_format(of).unwrap()
    try:
        return cachable_tensor_method(Problem(pa, fm), BackendCompiler.llvm)
    except Exception:
        return None


def _counted_codes():
    """Code objects whose line events are counted for GC-fault placement.

    Only the call path that runs on every request whatever the kernel cache holds, so that the
    k-th counted line is the same line in a batch and in a lone replay."""
    if _state["counted"] is None:
        import tensora

        src = os.path.dirname(tensora.__file__)
        _state["counted"] = (
            os.path.join(src, "tensor.py"),
            os.path.join(src, "compile", "_cffi_ownership.py"),
            os.path.join(src, "compile", "_porcelain.py"),
            os.path.join(src, "compile", "_tensor_method.py"),
        )
    return _state["counted"]


class Model:
    def __init__(self, heap):
        self.heap = heap
        self.names = {}  # name -> (obj, logical id)
        self.logical = {}  # id -> dict(blocks=[(role, block id)], snap={bid: bytes}, origin)
        self.next_id = 0

    def new_logical(self, cstruct, origin):
        self.next_id += 1
        blocks = []
        snap = {}
        for role, addr in dec.pointers(cstruct):
            if self.heap.in_arena(addr):
                b = self.heap.block_at(addr)
                if b is not None:
                    blocks.append((role, b.id))
                    if b.state == "live":
                        snap[b.id] = self.heap.read(b)
                else:
                    blocks.append((role, None))
        self.logical[self.next_id] = {"blocks": blocks, "snap": snap, "origin": origin,
                                      "header": dec.header(cstruct)}
        return self.next_id

    def reachable(self):
        return {lid for _, lid in self.names.values()}


class Run:
    def __init__(self, plan):
        self.plan = plan
        self.heap = SIM.heap
        self.model = Model(self.heap)
        self.violations = []
        self.log = []
        self.probes = {}
        self.gc_fired = 0
        self.gc_freed_blocks = 0
        self.opkinds = []
        self.deleted_kernel_output = False
        self.count_lines = False
        self.lines_per_op = {}
        self._line_counter = None
        self.orphaned = {}
        self.orphan_ids = set()
        self.op_kernel = {}
        self.threaded = plan.get("threads", 1) > 1
        self.inflight = {}  # thread -> logical ids the operation in flight holds references to
        self.sched = None
        # open items() iterators: slot -> [iterator, expected remaining items, logical id].  The tensor
        # behind an open iterator is neither "must be live" (an implementation may copy first) nor
        # "must be freed" (the iterator may pin it, as today's generator does): only the VALUES the
        # iterator goes on to yield are judged.
        self.iters = {}

    def reachable(self):
        r = self.model.reachable()
        for lids in self.inflight.values():
            r |= lids
        return r

    def maybe_pinned(self):
        return {e[2] for e in self.iters.values()}

    def viol(self, props, oracle, at, *detail):
        self.violations.append({"properties": list(props), "oracle": oracle, "phase": at,
                                "twin": 0, "detail": json.loads(json.dumps(detail, default=repr))})

    def probe(self, k, n=1):
        self.probes[k] = self.probes.get(k, 0) + n

    # ------------------------------------------------------------ tracing with GC faults
    def traced(self, fn, targets):
        """Run fn(); at the k-th counted line event (k in targets) run the collector."""
        if (not targets and not self.count_lines) or self.threaded:
            return fn()
        files = _counted_codes()
        count = [0]
        self._line_counter = count
        tset = set(targets)
        run = self

        def local(frame, event, arg):
            if event == "line":
                k = count[0]
                count[0] = k + 1
                if k in tset:
                    before = run.heap.stats["free"]
                    gc.collect()
                    run.heap.drain()
                    run.gc_fired += 1
                    freed = run.heap.stats["free"] - before
                    run.gc_freed_blocks += freed
                    run.log.append(("gc@", k, os.path.basename(frame.f_code.co_filename),
                                    frame.f_code.co_name, freed))
                    if frame.f_code.co_name == "__call__" and "return_value" in frame.f_locals:
                        run.probe("gc_between_kernel_return_and_handover")
            return local

        def glob(frame, event, arg):
            code = frame.f_code
            if code.co_filename in files and code.co_name not in ("__init__", "cachable_tensor_method"):
                return local
            if code.co_filename in files and code.co_name == "__init__" and code.co_filename.endswith("tensor.py"):
                return local
            return None

        sys.settrace(glob)
        try:
            return fn()
        finally:
            sys.settrace(None)

    # --------------------------------------------------------------------- invariants
    def check(self, at, new_output=None, before_ids=None):
        heap = self.heap
        heap.drain()
        m = self.model
        for lid in sorted(self.reachable()):
            lg = m.logical[lid]
            for role, bid in lg["blocks"]:
                if bid is None:
                    self.viol(("C13",), "reachable_array_unknown_to_heap", at, role)
                    continue
                b = heap.by_id.get(bid)
                if b is None:
                    continue
                if b.state != "live":
                    self.viol(("C13",), "freed_while_reachable", at, role, b.state, lg["origin"])
                elif bid in lg["snap"] and heap.read(b) != lg["snap"][bid]:
                    self.viol(("C13", "C05"), "reachable_array_changed", at, role, lg["origin"])
        for e in heap.check():
            props = ("C13",) if e[0] in ("double_free", "free_unknown") else ("C05",)
            self.viol(props, e[0], at, *e[1:])
        # the header (dimensions, mode types, mode ordering) of every named tensor or struct still
        # says what it said when the tensor was returned
        for nm, (obj, lid) in list(m.names.items()):
            c = obj.cffi_tensor if hasattr(obj, "cffi_tensor") else obj
            try:
                now = dec.header(c)
            except Exception as ex:  # e.g. a garbage order
                now = ("unreadable", type(ex).__name__)
            if now != m.logical[lid]["header"]:
                self.viol(("C02",), "header_of_reachable_tensor_changed", at, m.logical[lid]["origin"],
                          list(m.logical[lid]["header"]), list(now))
        if before_ids is not None:
            # before_ids is the call id of the operation: whatever its kernel allocated and did not
            # hand back in its output must have been released by the kernel itself
            held = set()
            if new_output is not None:
                held = {bid for _, bid in m.logical[new_output]["blocks"]}
            orphans = [b for b in heap.live_blocks() if b.call == before_ids and b.id not in held]
            if orphans:
                # one orphan set per kernel could be a workspace the method keeps for reuse; the
                # same kernel orphaning blocks again is growth, i.e. a leak
                key = self.op_kernel.get(before_ids)
                self.orphaned[key] = self.orphaned.get(key, 0) + 1
                self.orphan_ids.update(b.id for b in orphans)
                if self.orphaned[key] >= 2:
                    self.viol(("C13",), "kernel_leak", at, orphans[0].size, orphans[0].kind)

    def check_collected(self, at):
        """At an explicit gc operation: every block of an unreachable logical tensor is freed."""
        heap = self.heap
        m = self.model
        reach = self.reachable()
        # a block that a reachable tensor points to as well (an operation that returned its argument,
        # or a second wrapper around the same arrays, would be legal) is not dead
        shared = {bid for lid in reach for _, bid in m.logical[lid]["blocks"]}
        pinned = self.maybe_pinned()
        for lid, lg in m.logical.items():
            if lid in reach or lg.get("checked_dead") or lid in pinned:
                continue
            for role, bid in lg["blocks"]:
                b = heap.by_id.get(bid) if bid is not None else None
                if b is not None and b.state == "live" and bid not in shared:
                    self.viol(("C13",), "not_freed_after_last_reference", at, role, lg["origin"])
            lg["checked_dead"] = True

    # --------------------------------------------------------------- two simulated threads
    inconclusive = None

    @staticmethod
    def _thread_tracer(s):
        """Pre-emption points of a threaded history: the same cache-independent call path that
        places GC faults (so that a warm or cold kernel cache cannot shift the schedule)."""
        files = _counted_codes()
        cache = {}

        def mk(short):
            def local(frame, event, arg):
                if event == "line":
                    s.point(f"{short}:{frame.f_lineno}", True)
                return local

            return local

        def glob(frame, event, arg):
            code = frame.f_code
            loc = cache.get(code, 0)
            if loc == 0:
                loc = None
                f = code.co_filename
                if f in files and (code.co_name not in ("__init__", "cachable_tensor_method")
                                   or f.endswith("tensor.py")):
                    loc = mk(os.path.basename(f))
                cache[code] = loc
            return loc

        return glob

    def run_threads(self):
        from ..sched import Abandoned, Sched
        from . import threads as T

        plan = self.plan
        n = plan["threads"]
        s = Sched(n, plan["sched"], plan["run_seed"] ^ 0x5E55, replay=plan.get("decisions"),
                  step_budget=3_000_000)
        self.sched = s
        SIM.sched = s
        tracer = self._thread_tracer(s)
        errors = [None] * n
        heap = self.heap

        def heap_hook(label):
            me = s.tid()
            if me is not None and me == s.cur:
                s.point(label, True)

        heap.hook = heap_hook
        mine = [[i for i, t in enumerate(plan["thread_of"]) if t == k] for k in range(n)]

        def body(k):
            th = threading.current_thread()
            th.sim_id = k
            s.ev[k].acquire()
            if s.abandoned:
                s.finish()
                return
            sys.settrace(tracer)
            try:
                for i in mine[k]:
                    self.step(i, plan["ops"][i])
            except Abandoned:
                errors[k] = "abandoned"
            except BaseException as e:
                import traceback

                errors[k] = f"{type(e).__name__}: {e} {traceback.format_exc()[-800:]}"
            finally:
                sys.settrace(None)
                th.sim_call = None
                self.inflight[k] = set()
                s.finish()

        ts = [threading.Thread(target=body, args=(k,), name=f"sim-{k}", daemon=True) for k in range(n)]
        for t in ts:
            t.start()
        s.start()
        how = s.wait()
        heap.hook = None
        SIM.sched = None
        for t in ts:
            t.join(timeout=60)
        if how == "stalled" or any(t.is_alive() for t in ts):
            self.inconclusive = "unmodelled_blocking"
        elif s.deadlock is not None or s.budget_exceeded:
            self.inconclusive = "deadlock_or_budget"  # not a statement of C13
        else:
            for k in range(n):
                if errors[k] not in (None, "abandoned"):
                    raise RuntimeError(f"simulated thread {k} died in harness code: {errors[k]}")
            if plan.get("decisions") is None:
                plan["decisions"] = s.decisions
        self.log.append(("sched", s.log.hexdigest(), s.steps))
        self.probe("histories_on_two_threads")
        self.gc_fired += s.gcs

    # --------------------------------------------------------------------- operations
    def bind(self, name, obj, lid):
        self.model.names[name] = (obj, lid)

    def fresh(self, spec):
        from tensora import Tensor

        coords = [tuple(e[0]) for e in spec["entries"]]
        vals = [e[1] for e in spec["entries"]]
        return Tensor.from_aos(coords, vals, dimensions=tuple(spec["dims"]), format=spec["fmt"])

    def tensor_of(self, name):
        from tensora import Tensor

        ent = self.model.names.get(name)
        if ent is None or not isinstance(ent[0], Tensor):
            return None
        return ent[0]

    def well_formed(self, t, at, expect_fmt=None, expect_dims=None):
        """C02 oracle on a kernel output, lengths from the block table."""
        from ..workload import parse_fmt

        expect = None
        if expect_fmt is not None:
            modes, ordering = parse_fmt(expect_fmt)
            expect = {"dims": list(expect_dims), "mode_types": [1 if x == "s" else 0 for x in modes],
                      "ordering": ordering}
        levels, vals, nnz, problems = dec.decode(t.cffi_tensor, self.heap, expect)
        for p in problems:
            self.viol(("C02",), p[0], at, *p[1:])
        return levels, vals

    def step(self, i, o):
        from tensora import Tensor

        heap = self.heap
        m = self.model
        kind = o["op"]
        at = f"{i}:{kind}"
        targets = [k for j, k in self.plan["gc_faults"] if j == i]
        t0 = len(heap.trace)
        before_ids = f"op{i}"
        outcome = "ok"
        new_lid = None
        kernel_ran = False
        th = threading.current_thread()
        th.sim_call = f"op{i}"
        self.op_kernel[f"op{i}"] = (kind, o.get("kernel"), o.get("operator"))
        tid = getattr(th, "sim_id", -1)
        # every name the operation uses is resolved HERE, atomically (no yield point in harness code),
        # and the objects are held for the whole step: "reachable because an operation in flight holds
        # it" is then literally true.  (Resolving a name later, after a pre-emption, let another thread
        # rebind it in between: the model then kept a tensor reachable that nobody referenced any more
        # - a false freed_while_reachable found by vp check, VERIF_SEED=1.)
        held = {}
        for nm in [o.get("src"), o.get("a"), o.get("b")] + [
                sv.get("name") for sv in (o.get("srcs") or {}).values()]:
            if nm is not None and nm in m.names:
                held[nm] = m.names[nm]
        self.inflight[tid] = {lid for _, lid in held.values()}

        def tensor_of(nm):
            ent = held.get(nm)
            if ent is None or not isinstance(ent[0], Tensor):
                return None
            return ent[0]
        try:
            if kind == "eval":
                a, of, params, od, be = KERNELS[o["kernel"]]
                vv = o.get("variant", 0)
                params = [(p, _vd(d, vv), f) for p, d, f in params]
                od = _vd(od, vv)
                if vv:
                    self.probe("evaluate_with_second_dimension_set")
                kw = {}
                ok = True
                for p, d, f in params:
                    s = o["srcs"][p]
                    if "name" in s:
                        t = tensor_of(s["name"])
                        if t is None or t.dimensions != tuple(d) or t.format.deparse() != f:
                            t = None
                        if t is None:
                            ok = False
                            break
                        if m.logical[held[s["name"]][1]]["blocks"]:
                            self.probe("kernel_output_used_as_input")
                        kw[p] = t
                    else:
                        kw[p] = self.fresh(s["fresh"])
                if not ok:
                    outcome = "stale_source"
                else:
                    used_output = any(
                        "name" in o["srcs"][p] and m.logical[held[o["srcs"][p]["name"]][1]]["blocks"]
                        for p, _, _ in params)
                    try:
                        priv = bool(o.get("private"))
                        if priv:
                            self.probe("evaluate_through_problem_with_target_listed_last")
                        r = self.traced(lambda: _evaluate(a, of, be, kw, priv), targets)
                    except Exception as e:
                        # C13 says nothing about exceptions; C02 promises that a kernel output is
                        # usable as an input.  A failure on fresh inputs only is not ours to judge.
                        if used_output:
                            self.viol(("C02",), "kernel_output_not_usable_as_input", at,
                                      type(e).__name__, str(e)[:200])
                        else:
                            self.probe("evaluate_raised_on_fresh_inputs")
                        outcome = "raised:" + type(e).__name__
                        del e
                    else:
                        kernel_ran = True
                        new_lid = m.new_logical(r.cffi_tensor, f"eval:{o['kernel']}")
                        self.well_formed(r, at, of, od)
                        self.bind(o["dst"], r, new_lid)
                        del r
                del kw
            elif kind == "op":
                a = tensor_of(o["a"])
                b = tensor_of(o.get("b")) if "b" in o else None
                if a is None or ("b" in o and b is None):
                    outcome = "stale_source"
                else:
                    opn = o["operator"]
                    fn = {"add": lambda: a + b, "sub": lambda: a - b, "mul": lambda: a * b,
                          "matmul": lambda: a @ b, "scale": lambda: a * o["k"],
                          "rscale": lambda: o["k"] * a}[opn]
                    try:
                        r = self.traced(fn, targets)
                    except Exception as e:  # shape errors / no-kernel refusals are documented outcomes
                        outcome = "refused:" + type(e).__name__
                        del e
                    else:
                        kernel_ran = True
                        new_lid = m.new_logical(r.cffi_tensor, f"op:{opn}")
                        self.well_formed(r, at)
                        self.bind(o["dst"], r, new_lid)
                        del r
                del a, b
            elif kind == "alias":
                ent = held.get(o["src"])
                if ent is None:
                    outcome = "stale_source"
                else:
                    m.names[o["dst"]] = ent
                del ent
            elif kind == "alias_struct":
                t = tensor_of(o["src"])
                if t is None:
                    outcome = "stale_source"
                else:
                    m.names[o["dst"]] = (t.cffi_tensor, held[o["src"]][1])
                del t
            elif kind == "read":
                ent = held.get(o["src"])
                if ent is None:
                    outcome = "stale_source"
                else:
                    c = ent[0].cffi_tensor if isinstance(ent[0], Tensor) else ent[0]
                    has_blocks = bool(m.logical[ent[1]]["blocks"])

                    def rd():
                        return dec.decode(c, heap if has_blocks else None)

                    levels, vals, nnz, problems = self.traced(rd, targets)
                    for p in problems:
                        self.viol(("C02", "C13"), p[0], at, *p[1:])
                    if isinstance(ent[0], Tensor):
                        try:
                            _ = (ent[0].taco_indices, ent[0].taco_vals)
                        except Exception as e:
                            if has_blocks:
                                self.viol(("C02",), "kernel_output_not_readable", at, type(e).__name__, str(e)[:200])
                            del e
                    else:
                        self.probe("read_through_struct_alias")
                    outcome = "read:" + hashlib.blake2b(repr((levels, vals)).encode(), digest_size=4).hexdigest()
                    del c
                del ent
            elif kind == "iter_open":
                t = tensor_of(o["src"])
                if t is None or not hasattr(t, "items"):
                    outcome = "stale_source"
                else:
                    try:
                        expected = list(t.items())
                        it = iter(t.items())
                        got = [next(it) for _ in range(min(o["take"], len(expected)))]
                    except Exception as e:
                        outcome = "raised:" + type(e).__name__  # reading a live result: C02's business
                        if m.logical[held[o["src"]][1]]["blocks"]:
                            self.viol(("C02",), "kernel_output_not_readable", at, type(e).__name__, str(e)[:200])
                        del e
                    else:
                        if got != expected[:len(got)]:
                            self.viol(("C02",), "items_not_reproducible", at)
                        self.iters[(tid, o["slot"])] = [it, expected[len(got):], held[o["src"]][1]]
                        if m.logical[held[o["src"]][1]]["blocks"]:
                            self.probe("iterator_opened_on_kernel_output")
                        del it
                del t
            elif kind == "iter_next":
                ent = self.iters.get((tid, o["slot"]))
                if ent is None:
                    outcome = "no_iterator"
                else:
                    it, expected, lid_it = ent
                    unreachable = lid_it not in self.reachable()
                    got = []
                    err = None
                    try:
                        for _ in range(o["take"]):
                            got.append(next(it))
                    except StopIteration:
                        pass
                    except Exception as e:
                        err = type(e).__name__
                        del e
                    if err is not None or got != expected[:len(got)] or (o["take"] > len(expected) and len(got) != len(expected)):
                        # an iterator handed out by a result goes on reading that result's storage: it
                        # must keep yielding the stored entries whatever was deleted or collected since
                        self.viol(("C13",), "read_in_flight_saw_released_or_changed_storage", at,
                                  err, [list(map(repr, got[:3]))], [list(map(repr, expected[:3]))])
                    if unreachable and m.logical[lid_it]["blocks"]:
                        self.probe("iterator_advanced_after_last_name_of_kernel_output_was_deleted")
                    ent[1] = expected[len(got):]
                    if o["take"] > len(got) or not ent[1]:
                        del self.iters[(tid, o["slot"])]
                    del it, ent
            elif kind == "pickle":
                t = tensor_of(o["src"])
                if t is None:
                    outcome = "stale_source"
                else:
                    from_kernel = bool(m.logical[held[o["src"]][1]]["blocks"])
                    try:
                        r = self.traced(lambda: pickle.loads(pickle.dumps(t)), targets)
                    except Exception as e:
                        if from_kernel:
                            self.viol(("C02",), "kernel_output_not_picklable", at, type(e).__name__, str(e)[:200])
                        outcome = "raised:" + type(e).__name__
                        del e
                    else:
                        if from_kernel:
                            self.probe("pickled_kernel_output")
                            if dec.raw_result(r)[:3] != dec.raw_result(t)[:3]:
                                self.viol(("C02",), "pickle_round_trip_differs", at)
                        new_lid = m.new_logical(r.cffi_tensor, "pickle")
                        self.bind(o["dst"], r, new_lid)
                        del r
                del t
            elif kind == "to_format":
                t = tensor_of(o["src"])
                if t is None:
                    outcome = "stale_source"
                else:
                    fmts = TO_FORMATS.get(t.order, ["d" * t.order])
                    f = fmts[o["pick"] % len(fmts)]
                    from_kernel = bool(m.logical[held[o["src"]][1]]["blocks"])
                    try:
                        r = self.traced(lambda: t.to_format(f), targets)
                    except Exception as e:
                        if from_kernel:
                            self.viol(("C02",), "kernel_output_not_convertible", at, f, type(e).__name__, str(e)[:200])
                        outcome = "raised:" + type(e).__name__
                        del e
                    else:
                        new_lid = m.new_logical(r.cffi_tensor, "to_format")
                        self.bind(o["dst"], r, new_lid)
                        del r
                del t
            elif kind == "eq":
                a = tensor_of(o["a"])
                b = tensor_of(o["b"])
                if a is None or b is None:
                    outcome = "stale_source"
                else:
                    try:
                        outcome = "eq:" + str(bool(self.traced(lambda: a == b, targets)))
                    except Exception as e:
                        self.viol(("C02",), "tensors_not_comparable", at, type(e).__name__, str(e)[:200])
                        del e
                del a, b
            elif kind == "refused":
                t = tensor_of(o["src"])
                a, of, params, od, be = KERNELS[o["kernel"]]
                kw = {p: self.fresh({"dims": list(d), "fmt": f, "entries": []}) for p, d, f in params}
                p0, d0, f0 = params[0]
                how = o["how"]
                if how == "dim" and len(d0) >= 1:
                    kw[p0] = self.fresh({"dims": [d0[0] + 1] + list(d0[1:]), "fmt": f0, "entries": []})
                elif how == "order":
                    kw[p0] = self.fresh({"dims": list(d0) + [2], "fmt": "d" * (len(d0) + 1), "entries": []})
                elif how == "type":
                    kw[p0] = 3.0
                elif how == "missing":
                    del kw[p0]
                elif t is not None:
                    kw[p0] = t  # may or may not be consistent
                n_before = len(heap.trace)
                try:
                    r = self.traced(lambda: _evaluate(a, of, be, kw), targets)
                    outcome = "accepted"
                    kernel_ran = True
                    new_lid = m.new_logical(r.cffi_tensor, "refused-accepted")
                    self.bind("n5", r, new_lid)
                    del r
                except Exception as e:
                    outcome = "refused:" + type(e).__name__
                    if len(heap.trace) == n_before:
                        self.probe("refused_call_made_no_heap_call")
                    del e
                del kw, t
            elif kind == "del":
                ent = m.names.pop(o["name"], None)
                if ent is not None:
                    lg = m.logical[ent[1]]
                    if lg["blocks"] and ent[1] not in m.reachable():
                        self.deleted_kernel_output = True
                        self.probe("last_reference_to_kernel_output_deleted")
                        if ent[1] not in self.reachable():
                            # reach counter, not an oracle: was the storage released by reference
                            # counting at this very del, or is it waiting for a collection?  (The
                            # statement allows either: a garbage cycle is still a reference.)
                            obj = ent
                            ent = None
                            del obj
                            heap.drain()
                            live = [bid for _, bid in lg["blocks"] if bid is not None
                                    and heap.by_id.get(bid) is not None and heap.by_id[bid].state == "live"]
                            self.probe("release_deferred_past_the_last_del" if live
                                       else "released_at_the_last_del")
                    if ent is not None and lg["blocks"] and not isinstance(ent[0], Tensor):
                        self.probe("struct_alias_deleted")
                del ent
            elif kind == "gc":
                gc.collect()
            elif kind == "shape_flood":
                for j in range(o["n"]):
                    d = o["base"] + j
                    if j % 3 == 0:
                        Tensor.from_aos([], [], dimensions=(d,), format="s")
                    elif j % 3 == 1:
                        Tensor.from_aos([], [], dimensions=(d, 2), format="ds")
                    else:
                        Tensor.from_aos([], [], dimensions=(2, d, 1), format="s2d0s1")
                self.probe("shape_floods_while_results_alive" if m.names else "shape_floods")
            elif kind == "cache_clear":
                from tensora.compile import _porcelain

                if not clear_kernel_cache():
                    self.probe("cache_clear_unavailable")
                self.probe("kernel_cache_cleared_while_results_alive"
                           if any(m.logical[l]["blocks"] for _, l in m.names.values())
                           else "kernel_cache_cleared")
        except Exception:
            # every call into tensora above has its own handler: an exception that reaches this
            # point was raised by the harness itself and must never be reported as a violation
            if not self.threaded:
                sys.settrace(None)
            th.sim_call = None
            held.clear()
            self.inflight[tid] = set()
            raise
        if not self.threaded:
            sys.settrace(None)
        th.sim_call = None
        held.clear()
        self.inflight[tid] = set()
        # struct alias that outlives its Tensor?
        for n, (obj, lid) in m.names.items():
            if not isinstance(obj, Tensor) and m.logical[lid]["blocks"]:
                if not any(isinstance(o2, Tensor) and l2 == lid for o2, l2 in m.names.values()):
                    self.probe("struct_alias_outlived_its_tensor")
                    break
        self.check(at, new_lid if kernel_ran else None, before_ids if kernel_ran else None)
        if kind == "gc":
            heap.drain()
            self.check_collected(at)
        self.log.append((i, kind, outcome, heap.trace[t0:]))
        self.opkinds.append(kind)
        if self._line_counter is not None:
            self.lines_per_op[i] = self._line_counter[0]
            self._line_counter = None

    def run(self):
        heap = self.heap
        plan = self.plan
        hk = plan["heap"]
        g, z, poison = hk["twins"][hk.get("twin", 0)]
        if not getattr(self, "skip_initial_collect", False):
            gc.collect()
        gc.disable()
        try:
            heap.reset()
            heap.configure(garbage=g, redzone=z, rz=hk["rz"], realloc=hk["realloc"], zero=hk["zero"],
                           poison=poison)
            if self.threaded:
                self.run_threads()
            else:
                for i, o in enumerate(plan["ops"]):
                    self.step(i, o)
            if self.inconclusive:
                return self
            # bounded liveness: close every iterator, drop every name, collect, nothing may remain
            self.iters.clear()
            self.model.names.clear()
            gc.collect()
            heap.drain()
            self.check("end", None, None)
            self.check_collected("end")
            left = [b for b in heap.live_blocks()
                    if not (b.id in self.orphan_ids and max(self.orphaned.values(), default=0) < 2)]
            if left:
                self.viol(("C13",), "blocks_live_after_all_names_deleted", "end",
                          [(b.size, b.kind, b.call) for b in left[:6]])
        finally:
            gc.enable()
            sys.settrace(None)
        return self


SEQ_ALPHABET = ["alias", "alias_struct", "read", "read_struct", "pickle", "feed", "again",
                "del0", "del1", "del2", "gc", "iter_open", "iter_next"]


def _seq_pairs():
    """(producer kernel, consumer kernel, consumer parameter) such that the producer's output has
    exactly the type the consumer's parameter wants."""
    out = []
    for ki, (a, of, params, od, be) in enumerate(KERNELS):
        for kj, (a2, of2, params2, od2, be2) in enumerate(KERNELS):
            for pn, d, f in params2:
                if tuple(d) == tuple(od) and f == of:
                    out.append((ki, kj, pn))
    return out


def _seq_ops(sw, word):
    """The history  n0 = producer(fresh) ; <word>  over the names n0 (tensor), n1 (second name),
    n2 (its C struct), n3 (pickle copy), n4 (consumer's output)."""
    ki, kj, pn = sw["producer"], sw["consumer"], sw["param"]

    def fresh(d, f, k):
        return {"fresh": {"dims": list(d), "fmt": f, "entries": sw["entries"].get(k, [])}}

    def ev(dst):
        a, of, params, od, be = KERNELS[ki]
        return {"op": "eval", "dst": dst, "kernel": ki, "variant": 0,
                "srcs": {p: fresh(d, f, f"p:{p}") for p, d, f in params}}

    ops = [ev("n0")]
    for w in word:
        if w == "alias":
            ops.append({"op": "alias", "dst": "n1", "src": "n0"})
        elif w == "alias_struct":
            ops.append({"op": "alias_struct", "dst": "n2", "src": "n0"})
        elif w == "read":
            ops.append({"op": "read", "src": "n0"})
        elif w == "read_struct":
            ops.append({"op": "read", "src": "n2"})
        elif w == "pickle":
            ops.append({"op": "pickle", "dst": "n3", "src": "n0"})
        elif w == "feed":
            a, of, params, od, be = KERNELS[kj]
            ops.append({"op": "eval", "dst": "n4", "kernel": kj, "variant": 0,
                        "srcs": {p: ({"name": "n0"} if p == pn else fresh(d, f, f"c:{p}")) for p, d, f in params}})
        elif w == "again":
            ops.append(ev("n0"))
        elif w in ("del0", "del1", "del2"):
            ops.append({"op": "del", "name": "n" + w[-1]})
        elif w == "gc":
            ops.append({"op": "gc"})
        elif w == "iter_open":
            ops.append({"op": "iter_open", "slot": 0, "src": "n0", "take": 1})
        elif w == "iter_next":
            ops.append({"op": "iter_next", "slot": 0, "take": 100})
    return ops


def _seq_sweep(plan):
    """Bounded exhaustive part of C13's quantifier: EVERY history of the given length over the
    alphabet {second name, struct alias, read, read through the struct, pickle round trip, feed as
    input to another kernel, evaluate again into the same name, delete each name, collect} after
    one evaluation, for one seeded producer/consumer pair.  -> (violations, count, failing plan)"""
    import copy
    import itertools

    sw = plan["seq_sweep"]
    n = 0
    prefix = tuple(sw.get("prefix") or ())
    for tail in itertools.product(SEQ_ALPHABET, repeat=sw["len"] - len(prefix)):
        word = prefix + tail
        rearm_watchdog()
        p = copy.deepcopy(plan)
        p["seq_sweep"] = None
        p["ops"] = _seq_ops(sw, word)
        p["gc_faults"] = []
        r = Run(p)
        r.skip_initial_collect = n > 0  # the previous history ended with a collection
        r.run()
        n += 1
        if r.violations:
            return list(r.violations), n, p
    return [], n, None


def _gc_sweep(plan):
    """Fault enumeration for one short history: a collection at EVERY counted trace line of every
    operation, one at a time.  Returns (violations, points)."""
    import copy

    base = copy.deepcopy(plan)
    base["gc_faults"] = []
    first = Run(base)
    first.count_lines = True
    first.run()
    vio = list(first.violations)
    points = 0
    for i, n in sorted(first.lines_per_op.items()):
        for k in range(n):
            rearm_watchdog()
            p = copy.deepcopy(base)
            p["gc_faults"] = [[i, k]]
            r = Run(p).run()
            points += 1
            for v in r.violations:
                v = dict(v)
                v["detail"] = list(v.get("detail", [])) + [f"gc at op {i} line {k}"]
                vio.append(v)
            if vio:
                return vio, points, p
    return vio, points, None


def run_plan(plan, cfg=None):
    _ensure_capacity(plan["capacity"])
    _warm()
    sweep_points = 0
    sweep_vio = []
    if plan.get("seq_sweep"):
        vio, count, failing = _seq_sweep(plan)
        if failing is not None:
            plan.clear()
            plan.update(failing)
        sw = plan.get("seq_sweep") or {}
        seen = set()
        out = []
        for v in vio:
            key = (tuple(v["properties"]), v["oracle"])
            if key not in seen:
                seen.add(key)
                out.append(v)
        return {"verdict": "violation" if out else "ok", "violations": out, "stats": dict(SIM.heap.stats),
                "probes": {"sequence_sweeps": 1, "histories_enumerated_exhaustively": count},
                "digest": f"seqsweep:{count}", "steps": count,
                "shape": f"seqsweep:{sw.get('producer')}:{sw.get('consumer')}:{sw.get('len')}:{sw.get('prefix')}",
                "nontrivial": True, "skip": None}
    if plan.get("gc_sweep") and plan.get("threads", 1) == 1:
        sweep_vio, sweep_points, failing = _gc_sweep(plan)
        if failing is not None:
            # the plan that fails becomes the plan of record (it replays alone)
            plan.clear()
            plan.update(failing)
            plan["gc_sweep"] = False
    r = Run(plan).run()
    r.violations = list(r.violations) + [v for v in sweep_vio]
    if sweep_points:
        r.probes["gc_sweep_points_enumerated"] = sweep_points
        r.probes["histories_with_full_gc_sweep"] = 1
    heap = SIM.heap
    if r.inconclusive:
        return {"verdict": "inconclusive", "skip": r.inconclusive, "violations": [], "stats": {},
                "probes": r.probes, "digest": "inconclusive"}
    seen = set()
    vio = []
    for v in r.violations:
        key = (tuple(v["properties"]), v["oracle"])
        if key not in seen:
            seen.add(key)
            vio.append(v)
    stats = dict(heap.stats)
    stats["gc_injected_inside_operation"] = r.gc_fired
    stats["gc_injections_that_freed_blocks"] = r.gc_freed_blocks
    digest = hashlib.blake2b(json.dumps(r.log, default=repr).encode(), digest_size=8).hexdigest()
    return {"verdict": "violation" if vio else "ok", "violations": vio, "stats": stats,
            "probes": r.probes, "digest": digest, "steps": len(plan["ops"]),
            "shape": " ".join(r.opkinds), "nontrivial": r.deleted_kernel_output, "skip": None}


def fingerprint(plan, violation):
    kinds = sorted({o["op"] for o in plan["ops"]})
    return f"{violation['oracle']} @ ops={','.join(kinds)}"


def sample(plan, res):
    if plan.get("seq_sweep"):
        sw = plan["seq_sweep"]
        return {"sequence_sweep": {"producer": KERNELS[sw["producer"]][0], "consumer": KERNELS[sw["consumer"]][0],
                                   "length": sw["len"], "alphabet": SEQ_ALPHABET},
                "verdict": res["verdict"], "digest": res.get("digest")}
    return {"ops": [_brief_op(o) for o in plan["ops"]], "gc_faults": plan["gc_faults"],
            "capacity": plan["capacity"], "heap": {k: plan["heap"][k] for k in ("realloc", "zero", "rz")},
            "verdict": res["verdict"], "digest": res.get("digest")}


def _brief_op(o):
    if o["op"] == "eval":
        k = KERNELS[o["kernel"]]
        return f"{o['dst']} = eval[{k[4]}] {k[0]} -> {k[1]!r} (" + ", ".join(
            f"{p}={'fresh' if 'fresh' in s else s['name']}" for p, s in o["srcs"].items()) + ")"
    return " ".join(f"{k}={v}" for k, v in o.items() if k != "srcs")


def shrink_candidates(plan):
    import copy

    if plan.get("seq_sweep"):
        return
    ops = plan["ops"]
    n = len(ops)

    def without(idxs):
        p = copy.deepcopy(plan)
        keep = [i for i in range(n) if i not in idxs]
        remap = {old: new for new, old in enumerate(keep)}
        p["ops"] = [ops[i] for i in keep]
        p["gc_faults"] = [[remap[i], k] for i, k in plan["gc_faults"] if i in remap]
        return p

    # drop halves, then single operations
    if n > 3:
        yield without(set(range(n // 2, n)))
        yield without(set(range(0, n // 2)))
    for i in reversed(range(n)):
        yield without({i})
    # drop GC faults
    if plan["gc_faults"]:
        p = copy.deepcopy(plan); p["gc_faults"] = []; yield p
        for j in range(len(plan["gc_faults"])):
            p = copy.deepcopy(plan); del p["gc_faults"][j]; yield p
    # sources -> fresh empty
    for i, o in enumerate(ops):
        if o["op"] == "eval":
            for pn, s in o["srcs"].items():
                if "fresh" in s and s["fresh"]["entries"]:
                    p = copy.deepcopy(plan); p["ops"][i]["srcs"][pn]["fresh"]["entries"] = []; yield p
    # knobs toward benign
    if plan["heap"]["realloc"] != "size_class":
        p = copy.deepcopy(plan); p["heap"]["realloc"] = "size_class"; yield p
    if plan["heap"]["zero"] != "unique":
        p = copy.deepcopy(plan); p["heap"]["zero"] = "unique"; yield p
    if plan["capacity"] != 1 << 20:
        p = copy.deepcopy(plan); p["capacity"] = 1 << 20; yield p
