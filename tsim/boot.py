"""Worker bootstrap: environment pinning, seams, import of the system under test."""

from __future__ import annotations

import ctypes
import faulthandler
import os
import sys
import threading

VERIF = os.path.dirname(os.path.dirname(os.path.abspath(__file__)))
SHIM = os.path.join(VERIF, "build", "libtsim.so")
SHIM_INC = os.path.join(VERIF, "shim", "tsim_alloc.h")
PYTHON = "/venv/bin/python"


def repo_src() -> str:
    return os.environ.get("TSIM_TENSORA_SRC") or "/repo/src"


def worker_env(hashseed: int, extra=None) -> dict:
    env = dict(os.environ)
    env["LD_PRELOAD"] = SHIM
    env["PYTHONHASHSEED"] = str(hashseed)
    env["PYTHONPATH"] = VERIF
    env["PYTHONDONTWRITEBYTECODE"] = "1"
    env["TSIM_WORKER"] = "1"
    env.pop("PYTHONSTARTUP", None)
    if extra:
        env.update(extra)
    return env


def ensure_shim_built():
    src = os.path.join(VERIF, "shim", "tsim_shim.c")
    if (not os.path.exists(SHIM)) or os.path.getmtime(SHIM) < os.path.getmtime(src):
        import subprocess

        subprocess.run([os.path.join(VERIF, "bin", "setup")], check=True,
                       stdout=subprocess.DEVNULL)


class Sim:
    """What a booted worker holds."""

    heap = None
    tensora = None
    sched = None  # engine T installs the active scheduler here; SimLock consults it
    phase_cb = None  # the worker installs its journal's phase writer here
    rearm_cb = None  # ... and a callable that restarts the per-run watchdog (sweeps call it per sub-run)


def rearm_watchdog():
    cb = SIM.rearm_cb
    if cb is not None:
        cb()



SIM = Sim()

_orig_lock = threading.Lock
_orig_rlock = threading.RLock


class _SimLockBase:
    """Dual-mode lock: a real lock for state; inside a simulated thread a failed acquire parks
    the thread in the scheduler instead of blocking the OS thread."""

    def __init__(self, real):
        self._real = real

    def _sched(self):
        s = SIM.sched
        if s is None or s.abandoned:
            return None
        return s if getattr(threading.current_thread(), "sim_id", None) is not None else None

    def acquire(self, blocking=True, timeout=-1):
        s = self._sched()
        if s is None:
            return self._real.acquire(blocking, timeout)
        s.point("lock.acquire", True)
        while True:
            if self._real.acquire(False):
                s.note_lock(self, True)
                return True
            if not blocking:
                return False
            s.block_on(self)

    def release(self):
        self._real.release()
        s = self._sched()
        if s is not None:
            s.note_lock(self, False)
            s.unblock(self)
            s.point("lock.release", True)

    def __enter__(self):
        self.acquire()
        return self

    def __exit__(self, *a):
        self.release()

    def locked(self):
        return self._real.locked()

    def _at_fork_reinit(self):
        self._real._at_fork_reinit()


class SimLock(_SimLockBase):
    def __init__(self):
        super().__init__(_orig_lock())


class SimRLock(_SimLockBase):
    def __init__(self):
        super().__init__(_orig_rlock())

    def _is_owned(self):
        return self._real._is_owned()


def _install_global_setter_seams():
    """Setters of process-global interpreter state become scheduler yield points (and "shared
    access" positions for the generation-race sweeps) when a simulated thread calls them under a
    scheduler whose plan asks for it.  They only add yield points; behaviour is unchanged."""
    import locale
    import os as _os
    import random as _random
    import signal as _signal
    import warnings as _warnings

    def wrap(name, fn):
        if getattr(fn, "_tsim", False):
            return fn

        def w(*a, **k):
            s = SIM.sched
            if s is None or s.abandoned or not s.params.get("global_points") \
                    or getattr(threading.current_thread(), "sim_id", None) is None:
                return fn(*a, **k)
            s.point(f"global.{name}.before", True, False, True)
            try:
                return fn(*a, **k)
            finally:
                s.point(f"global.{name}.after", True, False, True)

        w._tsim = True
        w.__name__ = getattr(fn, "__name__", name)
        return w

    sys.setrecursionlimit = wrap("setrecursionlimit", sys.setrecursionlimit)
    sys.setswitchinterval = wrap("setswitchinterval", sys.setswitchinterval)
    # (os.chdir is left alone: cffi's own compile path calls it a dozen times per C kernel, under
    # tensora's lock; line-level pre-emption inside cffi/recompiler.py covers that window already)
    locale.setlocale = wrap("setlocale", locale.setlocale)
    _signal.signal = wrap("signal", _signal.signal)
    _random.seed = wrap("random.seed", _random.seed)
    _warnings.catch_warnings.__enter__ = wrap("catch_warnings.enter", _warnings.catch_warnings.__enter__)
    _warnings.catch_warnings.__exit__ = wrap("catch_warnings.exit", _warnings.catch_warnings.__exit__)


def boot(sim_locks: bool = False):
    """Install the seams and import tensora from the working tree.  Idempotent."""
    if SIM.heap is not None:
        return SIM
    faulthandler.enable()
    src = repo_src()
    if src not in sys.path:
        sys.path.insert(0, src)

    # third-party first (their locks must stay real)
    import cffi  # noqa: F401
    import cffi.recompiler  # noqa: F401
    import cffi.ffiplatform  # noqa: F401
    import llvmlite.binding as llvm
    import parsita  # noqa: F401
    import returns.result  # noqa: F401
    import returns.functions  # noqa: F401

    from .heap import Heap

    proc = ctypes.CDLL(None)
    if not hasattr(proc, "tsim_present"):
        raise RuntimeError("libtsim.so is not preloaded (run through bin/check)")
    heap = Heap()
    heap.attach_shim(proc)
    for name, addr in heap.symbol_addresses().items():
        llvm.add_symbol(name, addr)

    # C back end: every cffi build in this process force-includes the allocator header
    from cffi import FFI

    if not getattr(FFI.set_source, "_tsim", False):
        orig_set_source = FFI.set_source

        def set_source(self, module_name, source, source_extension=".c", **kwds):
            if source:
                args = list(kwds.get("extra_compile_args") or [])
                args += ["-include", SHIM_INC]
                kwds["extra_compile_args"] = args
            return orig_set_source(self, module_name, source, source_extension, **kwds)

        set_source._tsim = True
        FFI.set_source = set_source

    if sim_locks:
        _install_global_setter_seams()
        threading.Lock = SimLock
        threading.RLock = SimRLock
    try:
        import tensora
        import tensora.compile._compile_cffi  # noqa: F401
        import tensora.compile._compile_llvm  # noqa: F401
        import tensora.cli  # noqa: F401
    finally:
        threading.Lock = _orig_lock
        threading.RLock = _orig_rlock
    got = os.path.dirname(os.path.dirname(os.path.abspath(tensora.__file__)))
    if os.path.realpath(got) != os.path.realpath(src):
        raise RuntimeError(f"tensora imported from {got}, expected {src}")
    SIM.heap = heap
    SIM.tensora = tensora
    return SIM


def clear_kernel_cache() -> bool:
    """Empty tensora's kernel cache, however it is implemented today.  False if no way was found (the
    engines then rely on per-run fresh tensor names to get never-seen problems)."""
    try:
        from tensora.compile import _porcelain
    except Exception:
        return False
    fn = getattr(_porcelain, "cachable_tensor_method", None)
    for name in ("cache_clear", "clear"):
        m = getattr(fn, name, None)
        if callable(m):
            try:
                m()
                return True
            except Exception:
                pass
    return False


def set_capacity(c: int) -> bool:
    """The capacity knob ("buggify"): initial length of every growable output array."""
    try:
        from tensora.iteration_graph.outputs import _append
        from tensora.ir.ast import IntegerLiteral

        if not hasattr(_append, "default_array_size"):
            return False
        _append.default_array_size = IntegerLiteral(int(c))
        return True
    except Exception:
        return False
