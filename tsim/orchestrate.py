"""Orchestrator: batches of seeded runs over worker processes, crash/hang confirmation,
minimisation, replay files, evidence, exit codes.

exit 0  property held on everything explored (KNOWN-FINDING lines for re-observed listed findings)
exit 1  at least one violation not listed in known_findings.json (VIOLATION lines)
exit 2  harness error (never 0 on a time-out kill, never a VIOLATION line for a harness exception)
"""

from __future__ import annotations

import json
import os
import queue
import subprocess
import sys
import threading
import time

from .boot import PYTHON, VERIF, ensure_shim_built, worker_env
from .workload import derive_seed

NW = 16

PROPS = {
    "C02": {"engines": ["K", "S"], "quick_s": 55, "thorough_s": 900,
            "oracle_filter": "C02", "level": "exploration"},
    "C04": {"engines": ["K"], "quick_s": 55, "thorough_s": 900,
            "oracle_filter": "C04", "level": "exploration"},
    "C05": {"engines": ["K"], "quick_s": 55, "thorough_s": 900,
            "oracle_filter": "C05", "level": "exploration"},
    "C13": {"engines": ["S"], "quick_s": 55, "thorough_s": 900,
            "oracle_filter": "C13", "level": "exploration"},
    "C14": {"engines": ["T"], "quick_s": 70, "thorough_s": 1200,
            "oracle_filter": "C14", "level": "exploration"},
    "C15": {"engines": ["P", "G"], "quick_s": 80, "thorough_s": 1100, "weights": {"P": 0.62, "G": 0.38},
            "oracle_filter": "C15", "level": "exploration"},
}
# Deterministic floor per engine and second of budget: run indexes below floor*budget are explored
# whatever the machine load (up to HARD_FACTOR x budget of wall time); the wall budget only decides
# how much further a batch goes.  About half of what an idle 16-core sandbox does.
FLOOR_PER_S = {"K": 70, "S": 90, "T": 6, "P": 0.9, "G": 20}
HARD_FACTOR = 2.5
CRASH_PROPS = {  # property a confirmed crash/hang is attributed to, by engine and phase prefix
    # only a crash/hang while machine code of a kernel runs is a violation; a slow or crashing
    # *generation* is C08's business (not claimed) and is counted as skipped
    "K": lambda ph: (["C04", "C05"] if ph.startswith(("kernel:assemble", "kernel:compute"))
                     else ["C05"] if ph.startswith("kernel:") else []),
    "S": lambda ph: ["C13", "C02"],
    "T": lambda ph: [] if ph == "warmup" else ["C14"],
    "P": lambda ph: ["C15"],
    "G": lambda ph: [],  # a crash while *generating* is C08's business
}


def engine_module(name):
    from . import worker

    return worker.get_engine(name)


class Worker:
    def __init__(self, cfg, q, tag):
        self.cfg = cfg
        self.tag = tag
        self.q = q
        self.last_begin = None
        self.last_phase = ""
        self.summary = None
        self.fatal = None
        self.t_begin = None
        extra = cfg.get("env") or {}
        self.proc = subprocess.Popen(
            [PYTHON, "-m", "tsim.worker", json.dumps({k: v for k, v in cfg.items() if k != "env"})],
            stdin=subprocess.PIPE if cfg["mode"] == "serve" else subprocess.DEVNULL,
            stdout=subprocess.PIPE, stderr=subprocess.PIPE, cwd=VERIF, text=True,
            env=worker_env(cfg.get("hashseed", 0), extra),
        )
        self.stderr_tail = []
        threading.Thread(target=self._read_out, daemon=True).start()
        threading.Thread(target=self._read_err, daemon=True).start()

    def _read_out(self):
        for line in self.proc.stdout:
            if line.startswith("@@"):
                try:
                    obj = json.loads(line[2:])
                except Exception:
                    continue
                self.q.put((self.tag, obj))
        self.proc.wait()
        self.q.put((self.tag, {"ev": "exit", "rc": self.proc.returncode}))

    def _read_err(self):
        for line in self.proc.stderr:
            self.stderr_tail.append(line)
            if len(self.stderr_tail) > 60:
                del self.stderr_tail[:20]

    def kill(self):
        try:
            self.proc.kill()
        except Exception:
            pass


class Serve:
    """A persistent replay server (one plan in, one result out); respawned when it dies."""

    def __init__(self, engine, hashseed, watchdog_s=60, env=None):
        self.engine, self.hashseed, self.watchdog_s, self.env = engine, hashseed, watchdog_s, env
        self.w = None
        self.q = None

    def _start(self):
        self.q = queue.Queue()
        self.w = Worker({"mode": "serve", "engine": self.engine, "hashseed": self.hashseed,
                         "watchdog_s": self.watchdog_s, "env": self.env}, self.q, "serve")
        while True:
            try:
                _, obj = self.q.get(timeout=180)
            except queue.Empty:
                self.close()
                raise RuntimeError("replay server did not start")
            if obj["ev"] == "ready":
                return
            if obj["ev"] in ("fatal", "exit"):
                err = "".join(self.w.stderr_tail[-20:])
                self.close()
                raise RuntimeError(f"replay server failed: {obj} {err}")

    def run(self, plan, timeout=None):
        """-> result dict; verdict 'crash' if the process died while running the plan."""
        if self.w is None:
            self._start()
        self.w.proc.stdin.write(json.dumps(plan) + "\n")
        self.w.proc.stdin.flush()
        phase = ""
        t_end = time.time() + (timeout or (self.watchdog_s + 30))
        while True:
            try:
                _, obj = self.q.get(timeout=max(1, t_end - time.time()))
            except queue.Empty:
                self.close()
                return {"verdict": "crash", "how": "hang", "phase": phase, "violations": []}
            if obj["ev"] == "phase":
                phase = obj["p"]
            elif obj["ev"] == "begin":
                phase = ""
            elif obj["ev"] == "end":
                return obj["res"]
            elif obj["ev"] == "exit":
                tail = "".join(self.w.stderr_tail[-12:])
                self.close()
                return {"verdict": "crash", "how": f"exit {obj['rc']}", "phase": phase,
                        "violations": [], "stderr": tail[-1500:]}

    def close(self):
        if self.w is not None:
            try:
                self.w.proc.stdin.close()
            except Exception:
                pass
            self.w.kill()
            self.w = None


def crash_violation(engine, phase, how):
    return {"properties": CRASH_PROPS[engine](phase or ""), "oracle": "crash_or_hang",
            "phase": phase or "?", "twin": -1, "detail": [how]}


def matches(res, want):
    """Does result `res` show the violation class `want` = (property, oracle)?"""
    prop, oracle = want
    for v in res.get("violations", []):
        if prop in v["properties"] and v["oracle"] == oracle:
            return True
    return False


def result_with_crash(engine, res):
    if res.get("verdict") == "crash":
        res = dict(res)
        res["violations"] = [crash_violation(engine, res.get("phase"), res.get("how"))]
        res["verdict"] = "violation"
    return res


def minimise(engine, plan, want, budget=300, wall_s=240, env=None):
    """Delta-debug `plan` while the same violation class persists."""
    eng = engine_module(engine)
    srv = Serve(engine, plan.get("hashseed", 0), env=env)
    t_end = time.time() + wall_s
    tried = 0
    improved = True
    try:
        while improved and tried < budget and time.time() < t_end:
            improved = False
            for cand in eng.shrink_candidates(plan):
                if tried >= budget or time.time() > t_end:
                    break
                tried += 1
                res = result_with_crash(engine, srv.run(cand))
                if matches(res, want):
                    plan = cand
                    improved = True
                    break
    finally:
        srv.close()
    return plan, tried


def load_known():
    p = os.path.join(VERIF, "known_findings.json")
    if not os.path.exists(p):
        return []
    return json.load(open(p)).get("findings", [])


def run_batch(prop, engine, tier, batch_seed, budget_s, max_runs=None, env=None, nw=NW,
              log=print, floor=True):
    """Run one engine's batch.  Returns aggregate dict."""
    q = queue.Queue()
    deadline = time.time() + budget_s
    min_index = int(FLOOR_PER_S.get(engine, 0) * budget_s) if floor and max_runs is None else 0
    worker_hard = time.time() + budget_s * (HARD_FACTOR if min_index else 1.0)
    workers = {}
    agg = {"engine": engine, "runs": 0, "ok": 0, "skipped": {}, "violations": [],
           "harness_errors": [], "stats": {}, "probes": {}, "digests": {}, "shapes": {},
           "samples": [], "crash_candidates": [], "wall": 0.0, "steps": 0, "first_plans": [],
           "worker_restarts": 0, "inconclusive": 0, "extra": {}, "boot_crashes": []}
    eng = engine_module(engine)
    watchdog = getattr(eng, "WATCHDOG_S", 60)

    def spawn(w, start):
        cfg = {"mode": "batch", "engine": engine, "prop": prop, "batch_seed": batch_seed,
               "w": w, "nw": nw, "deadline": deadline, "start": start, "hashseed": w % 8,
               "tier": tier, "watchdog_s": watchdog, "env": env,
               "min_index": min_index, "hard_deadline": worker_hard}
        if max_runs is not None:
            cfg["max_runs"] = max_runs
        workers[w] = Worker(cfg, q, w)

    for w in range(nw):
        spawn(w, 0)
    alive = set(range(nw))
    hard_deadline = worker_hard + watchdog + 90 + 300  # (+ the warm-up allowance of the workers)
    t0 = time.time()
    agg["floor_index"] = min_index
    while alive:
        try:
            w, obj = q.get(timeout=5)
        except queue.Empty:
            if time.time() > hard_deadline:
                for w in list(alive):
                    wk = workers[w]
                    wk.kill()
                    if wk.last_begin is not None:
                        agg["crash_candidates"].append((wk.last_begin, wk.last_phase, "killed_after_deadline"))
                    alive.discard(w)
            continue
        wk = workers[w]
        ev = obj["ev"]
        if ev == "begin":
            wk.last_begin = (obj["i"], obj["seed"])
            wk.last_phase = ""
        elif ev == "phase":
            wk.last_phase = obj["p"]
        elif ev == "end":
            wk.last_begin = None
            res = obj["res"]
            agg["runs"] += 1
            agg["wall"] += res.get("wall", 0)
            v = res["verdict"]
            if v == "ok":
                agg["ok"] += 1
            elif v == "skipped":
                agg["skipped"][res.get("skip")] = agg["skipped"].get(res.get("skip"), 0) + 1
            elif v == "inconclusive":
                agg["inconclusive"] += 1
            elif v == "violation":
                agg["violations"].append({"i": obj["i"], "seed": obj["seed"], "plan": obj["plan"],
                                          "violations": res["violations"]})
                if os.environ.get("TSIM_STOP_AT_FIRST") and any(
                        prop in x["properties"] for x in res["violations"]):
                    # self-test mode: one violation of the property is all the caller wants to know
                    for w2 in list(alive):
                        workers[w2].kill()
                    alive.clear()
                    break
            elif v == "harness_error":
                agg["harness_errors"].append({"i": obj["i"], "seed": obj["seed"],
                                              "error": res.get("error"), "tb": res.get("tb")})
            for k, n in (res.get("stats") or {}).items():
                agg["stats"][k] = agg["stats"].get(k, 0) + n
            for k, n in (res.get("probes") or {}).items():
                agg["probes"][k] = agg["probes"].get(k, 0) + n
            agg["steps"] += res.get("steps", 0)
            agg["digests"][obj["i"]] = res.get("digest")
            if v in ("ok", "violation") and res.get("shape") is not None:
                d = agg["shapes"].setdefault(res["shape"], [0, False])
                d[0] += 1
                d[1] = d[1] or bool(res.get("nontrivial"))
            if obj.get("plan") is not None and v in ("ok",) and len(agg["samples"]) < 6:
                agg["samples"].append(eng.sample(obj["plan"], res))
            for k, val in (res.get("extra") or {}).items():
                agg["extra"].setdefault(k, []).append(val)
        elif ev == "summary":
            wk.summary = obj
        elif ev == "fatal":
            wk.fatal = obj
        elif ev == "exit":
            alive.discard(w)
            if wk.fatal is not None:
                agg["harness_errors"].append({"i": None, "seed": None, "error": wk.fatal.get("why"),
                                              "tb": wk.fatal.get("tb")})
                continue
            if wk.summary is None:
                # died inside a run (signal, watchdog): candidate crash/hang of that seed
                if wk.last_begin is not None:
                    agg["crash_candidates"].append((wk.last_begin, wk.last_phase, f"exit {obj['rc']}"))
                    nxt = wk.last_begin[0] + 1
                elif obj["rc"] is not None and obj["rc"] < 0 and wk.last_phase == "warmup":
                    # killed by a signal while warming up (plain sequential evaluations): decided
                    # after the batch by confirm_boot_crash
                    agg["boot_crashes"].append({"w": w, "how": f"exit {obj['rc']}",
                                                "tb": "".join(wk.stderr_tail[-15:])})
                    continue
                else:
                    agg["harness_errors"].append({"i": None, "seed": None,
                                                  "error": f"worker {w} exited rc={obj['rc']} outside a run",
                                                  "tb": "".join(wk.stderr_tail[-15:])})
                    continue
                if time.time() < (worker_hard if nxt < min_index else deadline) and agg["worker_restarts"] < 200:
                    agg["worker_restarts"] += 1
                    spawn(w, nxt)
                    alive.add(w)
            elif wk.summary.get("retired") and agg["worker_restarts"] < 400 and sum(
                    1 for r in agg["violations"] if any(prop in x["properties"] for x in r["violations"])
            ) < 40 and time.time() < (
                    worker_hard if wk.summary["next"] < min_index else deadline):
                agg["worker_restarts"] += 1
                spawn(w, wk.summary["next"])
                alive.add(w)
    agg["elapsed"] = time.time() - t0
    return agg


def confirm_boot_crash(engine, prop, agg, env=None):
    """Every worker of the batch was killed by a signal during warm-up: start one more, alone.  If it
    dies the same way, the library crashes the process in ordinary sequential use - a violation of
    the properties the engine's crashes are attributed to; otherwise a harness error."""
    bc = agg.get("boot_crashes") or []
    if not bc:
        return []
    eng = engine_module(engine)
    props = CRASH_PROPS[engine]("warmup")
    confirmed = False
    how = bc[0]["how"]
    if agg["runs"] == 0 and props:
        q = queue.Queue()
        cfg = {"mode": "batch", "engine": engine, "prop": prop, "batch_seed": 0, "w": 0, "nw": 1,
               "deadline": 0, "hashseed": 0, "watchdog_s": getattr(eng, "WATCHDOG_S", 60), "env": env}
        wk = Worker(cfg, q, 0)
        t_end = time.time() + 300
        ready = False
        while True:
            try:
                _, obj = q.get(timeout=max(1, t_end - time.time()))
            except queue.Empty:
                wk.kill()
                break
            if obj["ev"] == "ready":
                ready = True
            elif obj["ev"] == "exit":
                confirmed = (not ready) and obj["rc"] is not None and obj["rc"] < 0
                how = f"exit {obj['rc']}"
                break
    if confirmed:
        return [{"i": -1, "seed": 0,
                 "plan": {"engine": engine, "run_seed": 0, "hashseed": 0, "warmup_only": True},
                 "violations": [dict(crash_violation(engine, "warmup", how),
                                     detail=[how, "process killed by a signal during warm-up "
                                             "(sequential evaluations + gc)", bc[0]["tb"][-600:]])]}]
    for b in bc:
        agg["harness_errors"].append({"i": None, "seed": None,
                                      "error": f"worker {b['w']} {b['how']} during warm-up (not reproducible alone)",
                                      "tb": b["tb"]})
    return []


def confirm_crashes(engine, prop, batch_seed, agg, env=None, tier="quick"):
    """Re-run each crash candidate alone; a confirmed one becomes a violation."""
    eng = engine_module(engine)
    out = []
    for (i, seed), phase, how in agg["crash_candidates"][:6]:
        q = queue.Queue()
        cfg = {"mode": "batch", "engine": engine, "prop": prop, "batch_seed": batch_seed,
               "w": 0, "nw": 1, "deadline": time.time() + 3600, "only": i, "hashseed": seed % 8,
               "tier": tier, "watchdog_s": getattr(eng, "WATCHDOG_S", 60), "env": env}
        wk = Worker(cfg, q, 0)
        ph, ended, plan = "", None, None
        t_end = time.time() + cfg["watchdog_s"] + 120
        while True:
            try:
                _, obj = q.get(timeout=max(1, t_end - time.time()))
            except queue.Empty:
                wk.kill()
                break
            if obj["ev"] == "phase":
                ph = obj["p"]
            elif obj["ev"] == "begin":
                ph = ""  # the warm-up phase is over
            elif obj["ev"] == "end":
                ended = obj
            elif obj["ev"] == "exit":
                break
        if ended is None:
            # reproduce the plan in-process (pure function of the seed) for the replay file
            try:
                plan = eng.gen_plan(seed, {"prop": prop, "tier": tier})
            except Exception:
                plan = {"engine": engine, "run_seed": seed, "hashseed": seed % 8}
            out.append({"i": i, "seed": seed, "plan": plan,
                        "violations": [crash_violation(engine, ph or phase, how)]})
        elif ended["res"]["verdict"] == "violation":
            out.append({"i": i, "seed": seed, "plan": ended["plan"],
                        "violations": ended["res"]["violations"]})
        else:
            agg.setdefault("unconfirmed_crashes", []).append({"i": i, "seed": seed, "how": how})
    return out
