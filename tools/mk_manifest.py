#!/usr/bin/env python3
"""Regenerate MANIFEST.json (kept in the repository; run by hand after changing claims)."""
import json, os, sys
sys.path.insert(0, os.path.dirname(os.path.dirname(os.path.abspath(__file__))))
NA = {
 "C01": "pure function of (assignment, formats, inputs): no schedule, fault, clock or history in the statement; deciding it is input generation against a reference implementation, i.e. another technique (DESIGN.md §3)",
 "C03": "the stored pattern is a pure function of the input patterns; nothing in the environment (allocator, schedule, GC, hash seed) can change it",
 "C06": "equivalence of two printers of one IR; no environment in the statement",
 "C07": "semantic preservation of a pure program transformation; no environment in the statement",
 "C08": "totality of a pure function; 'never hangs' is only a wall budget on it (engine K counts generation time-outs as skipped, it does not judge them)",
 "C09": "constructors and read-back are pure; pickling is in-memory, no I/O fault in the statement",
 "C10": "argument validation is a pure function of the arguments",
 "C11": "operators are pure functions of their operands",
 "C12": "parser and deparser are pure functions of text",
 "C16": "the step count is a pure function of the input; needs a counting interpreter of the IR, not a fault simulator",
}
CLAIMS = {
 "C02": dict(engine="K+S", design="§3 C02", technique="deterministic simulation: generated kernels and API chains (one or two simulated caller threads) on a simulated heap (exact block lengths, dirty memory, moving realloc, tiny capacities); seeded search over problems x heap knobs x histories x schedules",
   text="Seeded exploration. Every tensor any run of engine K (kernel outputs under all heap knobs and initial capacities) or engine S (real evaluate/operator outputs inside API histories) produces is decoded from the raw C struct with array lengths taken from the simulated heap's block table: pos exact length/starts at 0/non-decreasing, crd strictly increasing and in range per segment, vals long enough, header equals the request; in S additionally used as input, converted, compared, pickled, read (raw and through items()) without error and left bit-identical, and the header (dimensions, modes, ordering) of every named result keeps saying what it said when it was returned (also across floods of 140 other shapes); 30% of the quick S histories are dealt out to two simulated threads that call the same cached methods with arguments of different dimensions (an output must carry its own call's dimensions). The program x format x input dimension is only sampled.",
   note="Trusts the heap model's block table and my own structure builder for inputs; observes the LLVM back end in K and both back ends in S; a clean batch is evidence, not proof."),
 "C04": dict(engine="K", design="§3 C04", technique="deterministic simulation: history assemble; compute; (re-value; compute)* vs evaluate on a simulated heap with garbage twins; seeded search",
   text="Seeded exploration of histories assemble -> compute -> (re-valued compute)* against evaluate, on the simulated heap: compute must make zero heap calls, leave every pos/crd block and the struct pointers byte-identical, write nothing outside the vals block assemble handed over (red zones, checksums), and reproduce evaluate's structure and values bit for bit (dirty vals, stale values from the previous compute, all realloc/zero policies, capacities from 1).",
   note="Relative oracle (never asks whether evaluate itself is right); decided on the LLVM lowering of the three kernels generated in one module."),
 "C05": dict(engine="K", design="§3 C05", technique="deterministic simulation with allocator fault injection: red zones, quarantine+poison, guard-page block placement, input checksums, block table, garbage twins, hypersparse dimensions, crash/hang journal; seeded search",
   text="Seeded exploration of evaluate/assemble/compute kernels with inputs placed in the simulated arena with exact lengths: red zones on every block, poisoned quarantine for moved/freed blocks, checksums of every block the call did not allocate (inputs untouched), block-table check of everything handed back, return code, garbage twins (same plan under two garbage/red-zone/poison byte triples must give identical outputs and heap-call traces => no observable read of uninitialised/out-of-bounds/stale memory), guard-page placement in 30% of the runs (every array ends at / starts after an inaccessible page, released blocks become inaccessible => any access one element outside an array or through a stale pointer faults even if the value is unused), hypersparse runs (compressed-only dimensions whose products leave int32), small-stack runs (the history on a 256 KiB thread stack over vectors with thousands of stored entries: a kernel needs O(1) stack), related problems generated in the same process just before the run's problem (storage twins, subsets of kinds), signed-overflow traps on the share compiled from C text, per-run watchdog + crash journal for termination.",
   note="Reads that stay inside a block but hit uninitialised cells and influence nothing observable are not detected; the signed-overflow clause is decided only on the 4-10% of runs compiled from C text (trap) and indirectly through absurd capacities; termination is a wall-clock watchdog; program space only sampled."),
 "C13": dict(engine="S", design="§3 C13", technique="deterministic simulation: seeded histories of API operations against a block life-cycle reference model, free() interposed by an LD_PRELOAD shim, GC disabled and injected at seeded trace lines",
   text="Seeded exploration of histories {evaluate (32 kernels, two back ends), operators, alias, struct alias, read, pickle, to_format, ==, refused call, del, gc} with gc.collect() injected inside operations: after every operation every block of a reachable tensor is live and unchanged, no arena address is freed twice or unknown, no kernel call leaves a block that is neither handed back nor freed; at every gc operation all blocks of unreachable tensors are freed; items() iterators stay open across operations and must keep yielding the stored entries whatever was deleted or collected since; bounded exhaustive sweeps enumerate every continuation of length 2-3 over a 13-letter operation alphabet for a seeded producer/consumer pair; at the end nothing is live.",
   note="Immediacy of release is not demanded (release deferred to the next collection is counted, not judged); CPython refcounting, weakrefs and cffi are real; the free() seam is the shim; a process killed by a signal during the sequential warm-up evaluations, reproducible alone, is reported as a crash."),
 "C14": dict(engine="T", design="§3 C14", technique="deterministic simulation: real caller threads under a seeded baton scheduler (sys.settrace line events, heap calls and simulated locks as pre-emption points), simulated heap, injected GC; seeded search over schedules",
   text="Seeded exploration of schedules: 2-4 (thorough up to 16) simulated caller threads issue evaluate / evaluate_cffi / tensor_method calls over shared and distinct problems, cached and never-seen, on both back ends, while the scheduler pre-empts at line events of tensora and cffi's recompiler, inside running kernels at their heap calls and at simulated-lock operations, and injects collections; eviction storms park a thread inside a cached method while another compiles more never-seen problems than the kernel cache holds; park sweeps enumerate every shared-state write of one thread as the parking position, and generation-race sweeps park a thread before each access to module-level generator state that a solo generation was seen to mutate while another thread generates a different kernel. Every concurrent call must return bit for bit what the same call returned alone (or raise the same exception type); no other exception, no deadlock on simulated locks, no crash, heap invariants, every block a call's kernel allocated ends up in that call's output and nobody else's, nothing live after the results are dropped. Every failing schedule is recorded as (thread, thread-local step) -> decision and replays exactly.",
   note="Two kernels never execute machine code truly in parallel (a kernel body between two heap calls is an atomic step); locks created dynamically by third-party code stay real (a stall is counted inconclusive, never a violation); files outside the trace allow-list run atomically."),
 "C15": dict(engine="P+G", design="§3 C15", technique="deterministic simulation of the process environment: fresh interpreters with seeded PYTHONHASHSEED executing seeded request histories (library and CLI entry points, cache clears, LRU eviction floods) compared request by request with a canonical baseline interpreter; plus 16 long generation histories (8 hash seeds) cross-compared request by request (engine G)",
   text="Seeded exploration of histories x hash seeds x entry points: per run a baseline interpreter (hash seed 0, every distinct request once) and a variant interpreter (seeded hash seed; shuffled, repeated requests through generate_code, the CLI with permuted -f / omitted dense formats / stdout or -o, tensor_method with shuffled formats dicts, the private cache entry with formats in another order, evaluate warm / after cache_clear / after an eviction flood; pools contain near-duplicate problems that must not be conflated: other tensor or index names, one other mode ordering, a literal spelled as the other numeric type, one operator exchanged, operators and index lists re-drawn, the formats of two inputs exchanged; evaluate requests pass their keyword arguments in shuffled order). Engine G: every worker interpreter is one long history of code-generation requests drawn from a universe of ~1160 related requests (catalogue and seeded problems with operator / structure / literal / rename twins x kinds x language); the same request must have the same outcome at every position of every history in every interpreter (tens of thousands of observations per quick batch). Equal canonical request key => equal text or raw result digest; CLI = library; two requests that receive the identical TensorMethod object must be the same problem (names, index names, every mode and mode ordering, format order).",
   note="Refused requests are compared by outcome class, not by message text; canonical request keys are computed by the generator from its own expression tree, not by tensora; the pair of interpreters per run costs ~2-7 s, so far fewer runs per hour than the in-process engines."),
}
checks = []
for pid, c in CLAIMS.items():
    checks.append({
        "property_id": pid,
        "quick_cmd": f"bin/check {pid} quick",
        "thorough_cmd": f"bin/check {pid} thorough",
        "evidence_file": f"evidence/{pid}.json",
        "replay_cmd_template": f"bin/check {pid} --replay {{path}}",
        "engine": c["engine"],
        "level_claimed": {"category": "exploration", "text": c["text"], "design_ref": c["design"]},
        "level_note": c["note"],
        "technique": c["technique"],
    })
pending = {p: "claimed by design (DESIGN.md §3) but its check is not registered yet" for p in ("C14", "C15") if p not in CLAIMS}
m = {
 "version": 1,
 "setup_cmd": "bin/setup",
 "hooks": {"guard": "none (no source hook was needed)",
           "enable": "nothing to enable: all seams are outside /repo (llvmlite add_symbol, cffi set_source wrapper, LD_PRELOAD free shim, module-global capacity knob rebound at run time, sys.settrace, gc)",
           "baseline_off_cmd": "cd /repo && /venv/bin/python -m pytest -ra -q -p no:cacheprovider --timeout=900 --continue-on-collection-errors",
           "source_commits": [], "add_only": True},
 "engines": [
  {"name": "K", "path": "tsim/engines/kernel.py", "serves_properties": ["C02", "C04", "C05"], "kind_free_text": "one problem's three kernels on the simulated heap, garbage twins"},
  {"name": "S", "path": "tsim/engines/session.py", "serves_properties": ["C13", "C02"], "kind_free_text": "histories of Python API operations, simulated heap + injected GC"},
  {"name": "G", "path": "tsim/engines/genhist.py", "serves_properties": ["C15"], "kind_free_text": "long code-generation histories in 16 interpreters with 8 hash seeds, cross-compared per request"},
  {"name": "T", "path": "tsim/engines/threads.py", "serves_properties": ["C14"], "kind_free_text": "N caller threads under the baton scheduler (tsim/sched.py), simulated locks, heap, GC"},
  {"name": "P", "path": "tsim/engines/process.py", "serves_properties": ["C15"], "kind_free_text": "fresh interpreter per history with its own PYTHONHASHSEED (tsim/pchild.py)"},
 ],
 "checks": checks,
 "notes": "Deterministic simulation with fault injection; see DESIGN.md. Replay: bin/check <id> --replay <file>. Fixes to /repo are listed in known_findings.json.",
 "not_applicable": [{"property_id": k, "reason": v} for k, v in {**NA, **pending}.items()],
}
json.dump(m, open(os.path.join(os.path.dirname(os.path.dirname(os.path.abspath(__file__))), "MANIFEST.json"), "w"), indent=1)
print("MANIFEST.json written:", [c["property_id"] for c in checks])
