#!/bin/sh
# tools/try_patch.sh <patch.diff> <property> [<property>...]
# Applies a change to a scratch copy of /repo/src (under mktemp -d, removed afterwards) and runs the
# quick check of each named property against it (TSIM_TENSORA_SRC); evidence is not rewritten.
PATCH="$1"; shift
S=$(mktemp -d /tmp/tsim-try-XXXXXX)
trap 'rm -rf "$S"' EXIT
cp -r /repo/src "$S/src"
( cd "$S" && patch -p1 -s -i "$PATCH" ) || { echo "patch does not apply"; exit 3; }
for P in "$@"; do
  TSIM_TENSORA_SRC="$S/src" TSIM_NO_EVIDENCE=1 TSIM_BUDGET_S="${TSIM_BUDGET_S:-}" /verif/bin/check "$P" "${TIER:-quick}" 2>&1 | grep -v "conda" | grep -E "^check|VIOLATION|oracle=|case:|HARNESS|engine" | head -14
done
