#!/bin/sh
# tools/confirm_seed.sh <dir with patch.diff + demo> <seeded id> [demo args...]
# Confirms an externally produced breaking change in a scratch worktree (outside /repo and /verif):
#   1. patch applies to a clean checkout of /repo HEAD   2. demo passes without, fails with the patch
#   3. the existing test suite passes with the patch      then copies it to /verif/seeded/<id>/
set -u
SRC="$1"; ID="$2"; shift 2
WT=$(mktemp -d /tmp/confirm-XXXXXX)
rmdir "$WT"
git -C /repo worktree add -q "$WT" HEAD || exit 2
trap 'git -C /repo worktree remove --force "$WT" >/dev/null 2>&1' EXIT
DEMO=$(ls "$SRC" | grep -E '^(demo|test_demo)\.py$' | head -1)
cp "$SRC/$DEMO" "$WT/$DEMO"
cd "$WT"
echo "== demo on the unchanged tree"
PYTHONPATH="$WT/src" timeout 600 /venv/bin/python "$DEMO" "$@" > /tmp/confirm_clean.out 2>&1; RC_CLEAN=$?
tail -3 /tmp/confirm_clean.out
git apply --check "$SRC/patch.diff" || { echo "PATCH DOES NOT APPLY"; exit 3; }
git apply "$SRC/patch.diff"
echo "== demo with the change"
PYTHONPATH="$WT/src" timeout 600 /venv/bin/python "$DEMO" "$@" > /tmp/confirm_patched.out 2>&1; RC_PATCHED=$?
tail -3 /tmp/confirm_patched.out
echo "== test suite with the change"
PYTHONPATH="$WT/src" timeout 2400 /venv/bin/python -m pytest -q -p no:cacheprovider --timeout=600 -n 6 tests tests_cffi fuzz_tests/test_parsing.py > /tmp/confirm_tests.out 2>&1; RC_T=$?
tail -2 /tmp/confirm_tests.out
echo "RESULT id=$ID demo_clean_rc=$RC_CLEAN demo_patched_rc=$RC_PATCHED tests_rc=$RC_T"
if [ $RC_CLEAN -eq 0 ] && [ $RC_PATCHED -ne 0 ] && [ $RC_T -eq 0 ]; then
  mkdir -p /verif/seeded/$ID
  cp "$SRC/patch.diff" "$SRC/$DEMO" /verif/seeded/$ID/
  [ -f "$SRC/README.md" ] && cp "$SRC/README.md" /verif/seeded/$ID/README.md
  echo "CONFIRMED -> /verif/seeded/$ID"
else
  echo "NOT CONFIRMED"
fi
